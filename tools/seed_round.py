"""Prepare a round of seeding tasks: for each property id create a scratch worktree /tmp/seed/<id><suffix> of /repo HEAD
and write TASK.md there (property text + anchors + the changes already tried in earlier rounds). Nothing from /verif's
checks goes into the task: only properties.jsonl text and one-line descriptions of earlier seeds.

usage: seed_round.py <suffix> <n_changes> C02 C04 ...
"""
import json
import subprocess
import sys
from pathlib import Path

V = Path(__file__).resolve().parent.parent

CONVENTIONS = """Conventions that hold in this checkout (useful for demos): all vectors are (z, y, x). Voxel k of a subtomogram
samples the tomogram at pos/scale + R (k - (shape-1)/2) with R the molecule's scipy Rotation applied to zyx vectors.
During a rotation search the TEMPLATE is rotated forward by each candidate q; an alignment result (shift s px, rotation q)
means subvolume(y) = template(c + q^-1 (y - c - s)); the aligned molecule is p_out = p_in + scale * R_m s, R_out = R_m q.
Candidates of a model with T templates and K rotations are ordered rotation-major (flat index = k*T + j).
Loader max_shifts are in nm (= pixels * loader.scale). Python is /venv/bin/python; acryo depends on numpy, scipy, dask, polars."""


def main():
    suffix, nchg = sys.argv[1], int(sys.argv[2])
    props = {json.loads(l)["id"]: json.loads(l) for l in (V / "properties.jsonl").read_text().splitlines() if l.strip()}
    for pid in sys.argv[3:]:
        p = props[pid]
        wt = Path(f"/tmp/seed/{pid}{suffix}")
        if not wt.exists():
            subprocess.run(["git", "-C", "/repo", "worktree", "add", "-q", "--detach", str(wt), "HEAD"], check=True)
        tried = []
        for d in sorted((V / "seeded").iterdir()):
            mp = d / "meta.json"
            if mp.exists():
                m = json.loads(mp.read_text())
                if m["breaks_property"] == pid:
                    first = (m.get("agent_notes") or "").strip().splitlines()
                    tried.append(f"- {m['id']}: {m['needs_to_manifest']}")
        anchors = p["anchors"]
        mech = "; ".join(f"{m.get('name')} ({m.get('where')})" for m in anchors.get("mechanism", []))
        task = f"""# Task: seed realistic regressions for property {pid} (round "{suffix}")

You are helping test a verification harness by producing realistic regressions ("seeded bugs") in a Python library.
Work ONLY inside the git worktree {wt} (a checkout of the Python cryo-EM toolkit `acryo`). Do not touch /repo or /verif and
do not read anything under /verif. There is no network.

## The property your changes must break (it currently holds in this checkout)

**{pid} {p['title']}.** {p['statement']}

Quantified over: {p['quantifier']['text']}

Code involved: {', '.join(anchors['files'])}. Mechanisms meant to make it hold: {mech}

{CONVENTIONS}

## What to produce

Make {nchg} different, independent small source changes to the library (each as its own patch against the clean checkout), each of which
 - breaks this property for some inputs / schedules / operation sequences,
 - still imports, and gives the SAME test-suite result as the clean checkout: run from inside the worktree, without -x:
   `cd {wt} && /venv/bin/python -m pytest -q -p no:cacheprovider -n 8 tests` (1-3 minutes; run it on the clean checkout first to learn the baseline),
 - is realistic: the kind of slip a maintainer makes in a refactor, an "optimisation", a numpy/dask/polars API migration or a
   copy-paste between the several near-duplicate code paths of this library,
 - needs something specific to manifest, NOT something ordinary use would expose at once (a particular parity / non-cubic shape,
   a boundary value, one of several entry points or loader kinds, a second call because of a cache, a multi-step sequence,
   two sites that each look fine alone, a particular interleaving, scale != 1, anisotropic parameters, empty or single-element inputs ...).

This is a SECOND round. The following changes were already tried in an earlier round; do NOT repeat them or close variants
(pick different files / mechanisms / trigger conditions, and prefer subtler ones):
{chr(10).join(tried) if tried else '- (none)'}

For each change n = 1..{nchg} create {wt}/out/<n>/ with
 - patch.diff : `git diff` of the change against the clean checkout (library change only)
 - demo.py    : a small standalone program, run as `cd {wt} && /venv/bin/python out/<n>/demo.py`, that exits non-zero (AssertionError
   or the escaping error) WITH the change and exits 0 WITHOUT it. Start it with `import sys, os; sys.path.insert(0, os.getcwd())` and
   assert that `acryo.__file__` is inside the worktree. The demo must compute its expectation independently (numpy / scipy from the
   property statement, or a planted ground truth), not by calling the same library function. Verify that it passes on the clean tree.
 - notes.txt  : 3-6 lines: what was changed, what is needed for it to manifest, the exact commands you ran and their outcomes.

Procedure per change: edit, run demo (fails), run the test suite (same result as clean), `git diff > out/<n>/patch.diff`,
`git checkout -- acryo` (clean again), run demo (passes). Leave the worktree clean (only out/ untracked). Finish with a short summary.
"""
        (wt / "TASK.md").write_text(task)
        print("prepared", wt)


if __name__ == "__main__":
    main()
