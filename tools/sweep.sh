#!/bin/bash
# usage: sweep.sh "<seeds>" [tier]  -- run every registered quick check for several seeds; report non-zero exits
cd /verif
T=${2:-quick}
for s in $1; do
  for id in C01 C02 C03 C04 C05 C06 C07 C08 C09 C10 C11 C12 C13 C14 C15 C16 C17 C18 C19 C20; do
    out=$(VERIF_SEED=$s ./check $id --tier $T --no-evidence 2>&1); rc=$?
    echo "seed=$s $id rc=$rc $(echo "$out" | grep -v KNOWN | tail -1 | cut -c1-150)"
    if [ $rc -ne 0 ]; then echo "$out" | grep -v KNOWN | tail -8 | cut -c1-300; fi
  done
done
