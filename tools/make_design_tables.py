"""Regenerate the machine-derived parts of DESIGN.md (between the AUTO markers):
fix list from known_findings.txt + git log, known findings, seeded-change table from seeded/*/meta.json."""
import json
import re
import subprocess
from pathlib import Path

V = Path(__file__).resolve().parent.parent


def main():
    kf = (V / "known_findings.txt").read_text().splitlines()
    log = subprocess.run(["git", "-C", "/repo", "log", "--reverse", "--format=%h|%s"], capture_output=True, text=True).stdout.splitlines()
    subj = {l.split("|", 1)[0]: l.split("|", 1)[1] for l in log if "|" in l}
    out = []
    out.append("### A.1 Genuine defects repaired in /repo (one `fix:` commit per root cause)\n")
    out.append("| Prop. | commit | what failed (input / call site) |")
    out.append("|---|---|---|")
    seen = set()
    for l in kf:
        if l.startswith("fixed:"):
            m = re.match(r"fixed: property=(\S+) (\S+) (.*)", l)
            if m:
                out.append(f"| {m.group(1)} | `{m.group(2)}` {subj.get(m.group(2), '')[:70]} | {m.group(3)} |")
                seen.add(m.group(2))
    missing = [h for h, s in subj.items() if s.startswith("fix:") and h not in seen]
    if missing:
        out.append("\nfix commits not referenced by a `fixed:` line: " + ", ".join(missing))
    out.append("\n### A.2 Known findings (genuine, recorded, not repaired)\n")
    for l in kf:
        if l.startswith("known:"):
            m = re.match(r"known: property=(\S+) sig=(\S+) (.*)", l)
            out.append(f"* **{m.group(1)}** `{m.group(2)}` - {m.group(3)}")
    out.append("\n### A.3 Seeded changes (written by independent sub-agents from the property text only) and the checks that catch them\n")
    out.append("| seed | breaks | needs to manifest | check result | caught by |")
    out.append("|---|---|---|---|---|")
    for d in sorted((V / "seeded").iterdir()):
        mp = d / "meta.json"
        if not mp.exists():
            continue
        m = json.loads(mp.read_text())
        out.append(f"| `{m['id']}` | {m['breaks_property']} | {m['needs_to_manifest']} | {m['check_result']} | {m['caught_by']} |")
    # A.4 engines as built (read from the check modules)
    import importlib
    import sys
    sys.path.insert(0, str(V))
    from vlib.runner import MODULES, THOROUGH_SCALE
    out.append("\n### A.4 Checks as built: engines, budgets and the stated rule (read from the check modules)\n")
    for pid in sorted(MODULES):
        mod = importlib.import_module(MODULES[pid])
        engs = mod.engines()
        sc = THOROUGH_SCALE.get(pid, 1)
        out.append(f"**{pid}** (`{MODULES[pid].replace('.', '/')}.py`; thorough case counts x{sc})\n")
        out.append("| engine | generated cases quick / thorough | enumerated part | shrinks (thorough) |")
        out.append("|---|---|---|---|")
        for e in engs:
            q, t = e.cases.get("quick", 0), e.cases.get("thorough", 0)
            gen_ = f"{q} / {int(t * sc)}" if e.strategy is not None else "-"
            out.append(f"| `{e.name}` | {gen_} | {'yes' if e.enumerate is not None else '-'} | {'yes' if e.shrink.get('thorough', True) else 'no'} |")
        out.append("")
        out.append("Rule: " + " ".join(str(mod.RULE).split()))
        tol = getattr(mod, "TOLERANCES", None)
        if tol:
            out.append("\nTolerances: " + "; ".join(f"{k}: {v}" for k, v in tol.items()))
        out.append("")
    text = "\n".join(out)
    p = V / "DESIGN.md"
    s = p.read_text()
    a, b = "<!-- AUTO:BEGIN -->", "<!-- AUTO:END -->"
    if a in s:
        s = s[:s.index(a) + len(a)] + "\n" + text + "\n" + s[s.index(b):]
    else:
        s += f"\n\n{a}\n{text}\n{b}\n"
    p.write_text(s)
    print("DESIGN tables regenerated:", len(out), "lines")


if __name__ == "__main__":
    main()
