#!/bin/bash
# run every thorough tier (development / background use); with VERIF_REPO set, against a snapshot of the repository
for id in C01 C02 C03 C04 C05 C06 C07 C08 C09 C10 C11 C12 C13 C14 C15 C16 C17 C18 C19 C20; do
  out=$(./check $id --tier thorough --no-evidence 2>&1); rc=$?
  echo "$id rc=$rc $(echo "$out" | grep -v KNOWN | tail -1 | cut -c1-160)"
  if [ $rc -ne 0 ]; then echo "$out" | grep -v KNOWN | tail -12 | cut -c1-400; cp replays/$id-*.json /verif/.work/ 2>/dev/null; fi
done
