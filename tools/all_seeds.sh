#!/bin/bash
# Re-verify every kept seeded change against the current checks: apply, run the quick check of the property that is
# expected to catch it (meta.json: breaks_property, or "check" override), expect exit 1, undo.
cd /verif
git -C /repo diff --quiet || { echo "/repo dirty"; exit 2; }
pass=0; fail=0
for d in seeded/*/; do
  id=$(basename $d); [ -f $d/meta.json ] || continue
  prop=$(/venv/bin/python -c "import json,sys;m=json.load(open('$d/meta.json'));print(m.get('check',m['breaks_property']))")
  if ! git -C /repo apply --check $PWD/$d/patch.diff 2>/dev/null; then echo "SKIP $id (patch no longer applies)"; continue; fi
  git -C /repo apply $PWD/$d/patch.diff
  ./check $prop --tier quick --no-evidence --no-regress >/dev/null 2>&1; rc=$?
  git -C /repo checkout -- .
  find replays -name "$prop-*.json" -delete
  if [ $rc -eq 1 ]; then pass=$((pass+1)); echo "caught  $id by $prop"; else fail=$((fail+1)); echo "MISSED  $id by $prop (rc=$rc)"; fi
done
echo "caught=$pass missed=$fail"
