#!/bin/bash
# usage: try_seed.sh <patch.diff> <ID> [tier]  -- apply to /repo, run the check, undo
P=$1; ID=$2; T=${3:-quick}
git -C /repo diff --quiet || { echo "/repo dirty"; exit 2; }
git -C /repo apply "$P" || { echo "patch does not apply"; exit 2; }
cd /verif && ./check $ID --tier $T --no-evidence --no-regress 2>&1 | cut -c1-260 | tail -6
rc=${PIPESTATUS[0]}
git -C /repo checkout -- .
find /verif/replays -name "$ID-*.json" -delete
echo "check exit=$rc"
