#!/bin/bash
# usage: mutate.sh <ID> <file-relative-to-repo> <sed-expression> [tier]
# sensitivity self-test: scratch copy of /repo/acryo + one sed edit, run the check against it, expect exit 1
ID=$1; F=$2; EXPR=$3; T=${4:-quick}
M=$(mktemp -d /tmp/mut.XXXXXX)
cp -r /repo/acryo $M/acryo
sed -i "$EXPR" $M/$F
if diff -q /repo/$F $M/$F >/dev/null; then echo "MUTATION DID NOT CHANGE THE FILE"; rm -rf $M; exit 2; fi
cd /verif && VERIF_REPO=$M ./check $ID --tier $T --no-evidence --no-regress 2>&1 | grep -v KNOWN | cut -c1-220 | tail -4
rc=${PIPESTATUS[0]}
rm -rf $M; find /verif/replays -name "$ID-*.json" -delete
echo "mutant exit=$rc (expect 1)"
