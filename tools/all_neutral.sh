#!/bin/bash
# Run the quick checks against every kept behaviour-preserving change (neutral/<id>/patch.diff): expected exit 0 everywhere.
# usage: all_neutral.sh ["<check ids>"]   (default: all 20; applies each patch to /repo and undoes it - /repo must be clean and idle)
cd /verif
git -C /repo diff --quiet || { echo "/repo dirty"; exit 2; }
CH=${1:-"C01 C02 C03 C04 C05 C06 C07 C08 C09 C10 C11 C12 C13 C14 C15 C16 C17 C18 C19 C20"}
bad=0
for d in neutral/*/; do
  id=$(basename $d)
  git -C /repo apply --check $PWD/$d/patch.diff 2>/dev/null || { echo "SKIP $id (patch no longer applies)"; continue; }
  git -C /repo apply $PWD/$d/patch.diff
  for c in $CH; do
    ./check $c --tier quick --no-evidence >/dev/null 2>&1; rc=$?
    [ $rc -eq 0 ] || { bad=$((bad+1)); echo "ALARM $id $c rc=$rc"; }
  done
  git -C /repo checkout -- .
  echo "done $id"
done
echo "alarms=$bad"
