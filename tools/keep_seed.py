"""usage: keep_seed.py <worktree> <n> <seed-id> <prop> <needs> <caught_by> <result>"""
import json, shutil, sys, subprocess
from pathlib import Path
w, n, sid, prop, needs, caught, result = sys.argv[1:8]
src = Path(w) / "out" / n
dst = Path("/verif/seeded") / sid
dst.mkdir(parents=True, exist_ok=True)
shutil.copy(src / "patch.diff", dst / "patch.diff")
shutil.copy(src / "demo.py", dst / "demo.py")
notes = (src / "notes.txt").read_text() if (src / "notes.txt").exists() else ""
base = subprocess.run(["git", "-C", w, "rev-parse", "--short", "HEAD"], capture_output=True, text=True).stdout.strip()
json.dump({"id": sid, "breaks_property": prop, "needs_to_manifest": needs, "base_commit": base,
           "author": "independent sub-agent given only the property text and a scratch worktree",
           "confirmed_by_me": "tools/verify_seed.sh: demo exits 0 on the clean worktree and non-zero with the patch; "
                              "pytest -n 8 tests with the patch: same result as the clean base commit (162 passed once the axes_to_rotator fix was in; 161 passed + the always-failing test_axes_to_rotator_invert before)",
           "check_run": f"tools/try_seed.sh seeded/{sid}/patch.diff {prop}", "check_result": result,
           "caught_by": caught, "agent_notes": notes}, open(dst / "meta.json", "w"), indent=1)
print("kept", dst)
