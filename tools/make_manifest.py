"""Regenerate MANIFEST.json from the table below (keeps it schema-valid)."""
import json
import subprocess
from pathlib import Path

V = Path(__file__).resolve().parent.parent

# id -> (technique, level text, level note, design ref)
CHECKS = {
    "C16": ("Hypothesis-generated shapes/cutoffs/orders vs float64 Butterworth reference; differential between 4 implementations; enumerated axis lengths 1..16",
            "Generated-input exploration with an explicit reference oracle (value, shape, realness, linearity, mean, identity, ft==fft(real), zero phase). Absence is not established; the per-axis grid 1..16 is enumerated completely.",
            "numpy backend only; float32 tolerances 1e-4 relative to max|input|; reference = numpy.fft float64", "4/C16"),
    "C08": ("Hypothesis-generated (shape, orientation, tilt range, axis) vs float64 tilt-plane rule on physical frequencies; differential between all mask entry points; enumerated axis lengths 1..16 and small-shape grid",
            "Generated-input exploration with an explicit geometric reference (bin-by-bin rule W, k->-k symmetry, realness on odd boxes, zero frequency, no-wedge, dual=union, entry-point agreement, invalid ranges rejected). Per-axis grids 1..16 enumerated.",
            "handedness of the tilt angle calibrated on even cubic boxes (where code and reference agree on every bin); bins within 1e-5 (relative) of a plane are skipped and counted; numpy backend only", "4/C08"),
    "C11": ("Hypothesis-generated operation sequences on molecule batches vs a float64 scipy-Rotation model; round trips over 24 Euler sequences, quaternion/rotvec/matrix/from_axes; enumerated 24 axis-aligned frames",
            "Model-based exploration: a generated sequence of rotate/translate calls is applied to Molecules and to an independent rigid-motion model and compared after every step (positions, orientations, copy semantics), plus round-trip, affine-matrix and local-coordinate oracles on the initial and final state. The 24 axis-aligned frames are enumerated for from_axes.",
            "Euler 'xyz' convention checked only through round trips/self-consistency; linear_transform is not modelled (its semantics are not stated by the property); float32 position storage tolerance 2e-3 per step", "4/C11"),
    "C12": ("Hypothesis-generated histories of table operations vs a list-of-rows model (uid encoded in position and rotation vector); rejection cases generated; aliasing sequences (copy / concat of one, then in-place append), data-frame operations around an in-place append, boolean list / Series masks, null values in cutby",
            "Model-based (stateful) exploration: histories of <=10 table operations over a pool of tables are replayed on a plain Python row model; every live table is compared with its model after every step; inconsistent inputs must raise the documented exception type and leave the table unchanged.",
            "polars null semantics assumed for predicates; sort position of nulls, feature column order and dtypes not asserted; all-null columns contributed only by empty inputs may be absent", "4/C12"),
    "C02": ("Hypothesis-generated (tomogram, chunking, pose class incl. crop-window boundary classes, shape, order, scale, corner_safe) vs scipy map_coordinates at the stated sampling rule; differential between the four loading routes; tomogram dtypes float16 (also near the top of its range), float32, float64",
            "Generated-input exploration with a reference-model oracle (voxel-by-voxel sampling rule inside the guaranteed region, exact-block class, finite fill / out-of-bound error contract, identical results from load / asnumpy / load_iter / construct_dask).",
            "guaranteed region without corner_safe = voxel centres within (min(shape)-1)/2 of the box centre; order-3 values compared >= 3 voxels inside the tomogram with 2e-2*range (local prefilter); nearest-neighbour rounding ties skipped", "4/C02"),
    "C13": ("Hypothesis-generated tables (orientations near 0/pi, feature dtypes with nulls, precisions, suffixes) round-tripped through data frame / parquet / csv / to_file and compared with the original",
            "Generated-input exploration with a round-trip oracle: exact for data frames and Parquet, to the requested decimal precision for CSV; column order and suffix dispatch checked on the written bytes.",
            "strings that CSV type inference cannot distinguish (empty, numeric-looking, true/false, NaN) are excluded from the domain; dtype equality not asserted for CSV", "4/C13"),
    "C04": ("Hypothesis-generated displaced copies (analytic Gaussian blobs / Fourier-shifted broadband texture) with planted displacement incl. boundary classes; oracle = planted d with the tolerances stated in the property; ranges wider than half the box, intensity gains 1e-4..100 and grey offsets up to 300, the same model called again after another orientation",
            "Generated-input exploration against planted ground truth: |shift-d| <= 0.1 px (ZNCC/NCC/PCC unmasked) or 0.5 px (FSC / masked), identity quaternion, superposition after shifting back, normalised score >= 0.9, via align and fit, with masks, cutoffs, tilt models and quaternions.",
            "three recorded known findings (ZNCC/NCC fractional bias <= 0.15 px; ZNCC/NCC tilt bias <= 1 px; FSC tilt bias <= 0.75 px) are counted, not failed; FSC only on broadband templates; masks never cut the core of the displaced density; tilt half-widths >= 40 deg", "4/C04"),
    "C01": ("Hypothesis-generated planted poses: analytic Gaussian-blob particles rendered into tomograms at (p*, R*), input molecules perturbed by (m, q_k) inside the search range; oracle = planted pose and features, for single/batch/group/mock/multi-template/template-free loaders",
            "Generated-input exploration against planted ground truth (position within 0.25 px, orientation within 1e-3 rad, shift/rotation/score features, template label, align_no_template == align(average)).",
            "blob templates (>= 3 blobs at radius >= 2.5 px, distinct amplitudes) contained in the inscribed ball; rotation sets >= 25 deg apart; equal-energy templates for the multi-template kind; isotropic (max, step) grids taken from acryo's own normalize_rotations", "4/C01"),
    "C06": ("Hypothesis-generated planted (template j, rotation k, shift d) sub-volumes built analytically; oracle = planted labels/rotation/shift, score optimality against separately evaluated candidates, permutation metamorphic relation; loader/group routes on planted tomograms incl. a 375-candidate search; (max, step) grids against the documented construction",
            "Generated-input exploration with planted ground truth, a differential optimality oracle (full search == max over candidates evaluated alone), a metamorphic permutation relation, and a documented-grid oracle for (max, step) ranges.",
            "rotation sets contain the identity and are >= 25 deg apart; FSC not used (degenerate on band-limited blobs); PCC with unequal-energy templates is a recorded known finding; optimality oracle only for T*K <= 9", "4/C06"),
    "C05": ("Hypothesis-generated degenerate / unrelated / boundary sub-volumes x max_shifts classes (0, <0.75, off-grid, integer, > box, anisotropic) x models x rotation sets; loader-level routes with scalar/tuple/list/numpy-scalar limits; enumerated max_shifts spellings; ndarray limits reused for a second call (argument must stay untouched)",
            "Generated-input exploration with a validity oracle: no exception, finite shift and score, |shift_i| <= max_shifts_i (model level) and displacement along the input molecule's own axes within max_shifts (loader level, all five alignment routes).",
            "FSC limited to max_shifts <= 3 px / boxes <= 10; rotation sets contain the identity; 0-d numpy arrays are not treated as a documented max_shifts spelling", "4/C05"),
    "C07": ("Hypothesis-generated image pairs / masks / cutoffs / tilt models vs a float64 reference pipeline (mask, Butterworth, wedge, Pearson or cosine); metamorphic gain/offset invariance; differential score == landscape centre == zero-range align; integer-landscape arg-max vs align shift and upsampled-landscape nodes vs integer samples on planted peaks; loader rows vs model; multi-template models against single-template scores, wide-range landscapes",
            "Generated-input exploration with a reference-model oracle (2e-4), metamorphic invariances and differential agreement between score, landscape and align for the normalised models; loader.score / construct_landscape rows against the model applied to subtomogram i.",
            "the wedge mask in the reference is the model's own (geometry is C08's); planted peaks >= 0.6 px inside the range with mild noise; FSC agreement limited to boxes <= 10", "4/C07"),
    "C09": ("Hypothesis-generated loaders (single/batch/group/mock, numpy or chunked dask) vs numpy means of the loaded subtomograms; split halves decoded from power-of-two constant blocks; stacks split into unequal dask blocks (array.chunk-size), an FSC evaluation between two split calls",
            "Generated-input exploration with a reference oracle (average == mean of asnumpy, count-weighted batch mean, per-group means, chunking independence) and a decoding oracle for split averaging (disjoint, exhaustive, non-empty, reproducible, consistent with the full average and with fsc_with_halfmaps).",
            "split decoding uses identity-oriented molecules inside constant blocks of value 2^i (exact in float32)", "4/C09"),
    "C15": ("Hypothesis-generated image shapes / bin sizes / chunkings / compute flags / loaders vs block-sum reference; exact-class subtomograms compared with block sums of b-times-larger subtomograms; integer tomograms, numpy-integer bin sizes",
            "Generated-input exploration with a reference oracle (binned image == block sums, scale and position bookkeeping, parent untouched, lazy == eager) and an exact metamorphic relation between binned and original subtomograms on the binned grid.",
            "exact class: identity orientation and voxel-aligned positions in both loaders; compute flag not asserted for b == 1 (binning(1) is a copy)", "4/C15"),
    "C17": ("Hypothesis-generated image pairs / shapes / shell widths vs a float64 per-shell reference; symmetry and rescaling metamorphic relations; loader-level tables recomputed from the returned half-maps and masks",
            "Generated-input exploration with a reference-model oracle per shell, metamorphic relations (symmetry, positive rescaling, self-correlation = 1) and a differential oracle at loader level (table == reference applied to the returned half-maps x mask; half-maps == average_split - mean; reproducibility; column names).",
            "shells below the single-precision noise floor and shells touched by exact boundary ties are skipped and counted", "4/C17"),
    "C10": ("differential testing across dask schedulers (synchronous / threads 1-16 / harness-owned completion orders drawn by Hypothesis) and chunkings; cooperative thread scheduler with schedule points at the shared template cache driven by drawn schedules, all 2-thread schedules of length 8 enumerated; single-preemption schedules A..B..A with interpreter-level (sys.settrace call/return/line) schedule points inside acryo frames, enumerated over every point for model- and loader-level task pairs; lazy vs computed shapes; preemption stress in the thorough tier; the same molecules submitted in reverse order; alternation schedules with 2-8 hand-overs at drawn point budgets",
            "Exploration of harness-owned schedules: generated computations must give identical results under every scheduler / chunking, every drawn interleaving of threads sharing one model must reproduce the sequential results without error, and lazy arrays must report their computed shape. The 2-thread, length-8 schedule space over score and every single-preemption point of score/align/landscape (4 models, cold caches) are enumerated completely.",
            "interleavings inside numpy/scipy/polars C code and free-threaded interpreters are not owned by the harness (only sampled by the stress engine); cooperative schedule points are the accesses to TemplateMaskCache._dict and attribute writes on the shared model; the settrace engine performs one hand-over per run", "4/C10"),
    "C14": ("Hypothesis-generated components / poses (grid-coincident, fractional, rotated, straddling, outside, negative) vs a float64 reference that evaluates each template at c + R^-1 (X - pos/scale); exact-paste, loader round trip, partition/order metamorphic relations, 2-D vs z-projection differential; dense grid-coincident templates, volumes with one axis of 3-8 or 1000-3100 voxels, provider templates, simulator objects whose components were overwritten",
            "Generated-input exploration with a reference-model oracle for the whole volume, exact oracles for grid-coincident poses (paste and loader round trip) and metamorphic/differential relations (component and molecule order, additivity, simulate_2d == projection).",
            "template density confined to the inscribed ball minus 2 voxels; order-0 volumes are compared only for grid-coincident poses (nearest-neighbour ties)", "4/C14"),
    "C03": ("Hypothesis-generated histories of loader construction / derivation / grouping operations on identity-encoding tomograms vs a list-of-rows model; per-molecule results compared with single-molecule loaders; index lists / arrays / stepped slices for load, duplicate image ids, unseeded sampled groups",
            "Model-based (stateful) exploration: every voxel encodes (tomogram, z, y, x), so the subtomogram returned for row i names the molecule it was cut at; rows, image ids, features, ancestors and group partitions are compared with a Python model after every step, and score/align/landscape/apply rows with single-molecule loaders.",
            "add_tomogram/add_loader are treated as construction steps (documented to mutate); binning is checked for bookkeeping only (values are C15's)", "4/C03"),
    "C18": ("Hypothesis-generated image stacks / masks / chunkings vs an exact numpy SVD of the centred masked matrix; planted clusters; loader.classify on tomograms with interleaved planted classes; integer stacks, boolean masks, transform / predict of subsets, single images and fresh batches, row subsets in any order",
            "Generated-input exploration with a reference-model oracle (singular values, principal subspaces, projections, orthonormality, chunking independence), planted-truth cluster recovery, and a bookkeeping oracle for loader.classify (one integer column in molecule order, nothing else changed).",
            "components compared as subspaces where singular values are within 1% of each other; cluster recovery only asserted for well separated planted classes and n_clusters <= k + 1", "4/C18"),
    "C19": ("recursive Hypothesis strategy over pipeline expression trees (providers, converters, arithmetic with scalars on either side, comparisons, unary minus, @) evaluated against a small interpreter (nested function application + numpy); metamorphic scale covariance; analytic Gaussian; mask-converter laws; currying; comparisons on tie-rich integer images for every operand-kind pair, repeated evaluation of the same pipeline object, masks touching the box faces and binary masks of other dtypes",
            "Generated-program exploration: every generated pipeline expression is built with the library operators and compared with an independent interpreter of the same tree; @-chains are checked for associativity; physical-unit parameters are checked by the metamorphic relation (lambda*params, lambda*scale) == (params, scale), from_gaussian against the closed form, rescaling providers, extensivity laws of the mask converters, curried functions and loader.normalize_*.",
            "parameters passing through ceil/round/int are generated in the pixel domain away from discontinuities; arithmetic on comparison results is not generated; mask laws on masks r+1 voxels away from the faces", "4/C19"),
    "C20": ("Hypothesis-generated volumes with planted particles placed relative to drawn chunk borders (interior / border / 8-chunk corner), dtypes, scales, chunkings incl. chunks smaller than the overlap; oracle = bijection between strong picks and planted particles, planted rotation for the template matcher, numpy vs chunked differential; thin slabs, close diagonal pairs, on-grid exactness, image baselines up to 5000, provider templates reused at another pixel size, axes cut into chunks thinner than the overlap depth, 300 searched rotations",
            "Generated-input exploration against planted ground truth (each particle picked exactly once within 1 px, planted searched rotation reported, nothing strong elsewhere) plus a differential oracle between numpy input and a drawn dask chunking.",
            "strong pick = score >= 0.5 (LoG/DoG) / 0.75 (template matcher) x median score at the planted sites; particles >= 7 sigma (1.6 template boxes) apart and 4 sigma away from the faces", "4/C20"),
}

NOT_YET = {}


def main():
    props = [json.loads(l) for l in (V / "properties.jsonl").read_text().splitlines() if l.strip()]
    fixes = subprocess.run(["git", "-C", "/repo", "log", "--format=%h %s"], capture_output=True, text=True).stdout
    checks = []
    na = []
    for p in props:
        pid = p["id"]
        if pid in CHECKS:
            tech, text, note, ref = CHECKS[pid]
            checks.append({
                "property_id": pid,
                "quick_cmd": f"./check {pid} --tier quick",
                "thorough_cmd": f"./check {pid} --tier thorough",
                "evidence_file": f"evidence/{pid}.json",
                "replay_cmd_template": f"./check {pid} --replay {{path}}",
                "engine": "hypothesis-runner",
                "level_claimed": {"category": "exploration", "text": text, "design_ref": f"DESIGN.md section {ref}"},
                "level_note": note,
                "technique": tech,
            })
        else:
            na.append({"property_id": pid,
                       "reason": NOT_YET.get(pid, "check not built yet in this session (planned in DESIGN.md section 4); not claimed until it runs quietly and its mutants are caught")})
    m = {
        "version": 1,
        "setup_cmd": "/venv/bin/pip install --no-index --find-links /opt/veriftools/wheels hypothesis jsonschema",
        "hooks": {
            "guard": "ACRYO_VERIF",
            "enable": "no source hooks: all instrumentation is installed at run time by the harness (attribute replacement); checks import acryo from /repo's working tree in a fresh interpreter",
            "baseline_off_cmd": "cd /repo && /venv/bin/python -m pytest -ra -q -p no:cacheprovider --timeout=900",
            "source_commits": [],
            "add_only": True,
        },
        "engines": [{"name": "hypothesis-runner", "path": "vlib/runner.py",
                     "serves_properties": sorted(CHECKS),
                     "kind_free_text": "Hypothesis 6.168 property-based search over JSON case descriptors with explicit oracles; sharded over processes; replay files bypass Hypothesis"}],
        "checks": checks,
        "notes": "Genuine defects repaired in /repo as 'fix:' commits are listed in known_findings.txt (fixed: lines). "
                 "Repo fix commits so far:\n" + "\n".join(l for l in fixes.splitlines() if " fix:" in l),
        "not_applicable": na,
    }
    (V / "MANIFEST.json").write_text(json.dumps(m, indent=1))
    try:
        import jsonschema
        jsonschema.validate(m, json.loads(Path("/root/.vp/MANIFEST.schema.json").read_text()))
        print("MANIFEST valid;", len(checks), "checks,", len(na), "not claimed")
    except ImportError:
        print("jsonschema missing; not validated")


if __name__ == "__main__":
    main()
