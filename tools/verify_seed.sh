#!/bin/bash
# usage: verify_seed.sh <worktree> <out-subdir> [tests]
# confirms in the scratch worktree: demo fails with patch / passes without; optional: test suite passes with patch
W=$1; N=$2
cd "$W" || exit 2
git checkout -q -- acryo
/venv/bin/python out/$N/demo.py >/dev/null 2>&1; clean=$?
git apply out/$N/patch.diff || { echo "patch does not apply"; exit 2; }
/venv/bin/python out/$N/demo.py >/dev/null 2>&1; patched=$?
tests="skipped"
if [ "$3" = "tests" ]; then
  tests=$(/venv/bin/python -m pytest -q -p no:cacheprovider -n 8 tests 2>&1 | tail -1)
fi
git checkout -q -- acryo
echo "demo clean=$clean patched=$patched tests: $tests"
