"""C09 - Averages are plain arithmetic means of the loaded subtomograms."""
from __future__ import annotations

import warnings

import numpy as np
from hypothesis import strategies as st
from scipy.spatial.transform import Rotation

from vlib import gen
from vlib.runner import Engine, viol, HarnessError

PROPERTY = "C09"
RULE = ("Engine 'mean': Hypothesis draws tomograms (numpy or dask with drawn chunkings), 1..16 molecules with drawn "
        "poses, an output shape and a loader kind (single / batch over 2-3 tomograms with interleaved registration / "
        "group / mock); average() is compared with asnumpy().mean(0), the batch average with the count-weighted mean of "
        "the per-tomogram averages, group averages with each group's own loader, and numpy vs every chunking. Engine "
        "'split': every molecule sits in a constant block of value 2^i, so each half-map is a constant from which the "
        "subset of molecules is decoded; halves must be disjoint, exhaustive, non-empty (n >= 2), reproducible for a "
        "seed, consistent with the full average, and identical between average_split and fsc_with_halfmaps; group "
        "variant per group. Non-trivial = >= 3 molecules with a chunked dask tomogram, or a decoded split.")
RULE += (" " + 'Also: averages with the subtomogram stack split into dask blocks of 1-5 particles (array.chunk-size), and an FSC evaluation between two average_split calls.')
TOLERANCES = {"mean": "1e-5 * range", "chunking": "1e-6 * range (mean-padding of a chunked array sums in a different order: 1 ulp)", "split decode": "exact (powers of two in float32)"}
ASSUMPTIONS = ["split decoding uses identity-oriented molecules at integer positions inside constant blocks (order 1), so every subtomogram is exactly constant"]


def build(d, tomo_override=None):
    from acryo import SubtomogramLoader, BatchLoader, Molecules, MockLoader
    import polars as pl
    import dask.array as da

    n = d["n"]
    shape = tuple(d["shape"])
    S = max(shape) + 8
    ntomo = d["ntomo"]
    tomo_of = [t % ntomo for t in d["tomo_of"][:n]]
    counts = [max(1, tomo_of.count(t)) for t in range(ntomo)]
    tomos = [gen.smooth_noise(d["seed"] + t, (S, S, S * counts[t]), sigma=1.0) for t in range(ntomo)]
    if d.get("tdtype") == "int16":
        # integer tomogram with large counts: a sum over the particles does not fit the dtype, the mean does
        tomos = [np.clip(np.round(t_ * 6000.0), -32000, 32000).astype(np.int16) for t_ in tomos]
    slot, seen = [], [0] * ntomo
    for t in tomo_of:
        slot.append(seen[t])
        seen[t] += 1
    pos = np.array([[S / 2 + o[0], S / 2 + o[1], slot[i] * S + S / 2 + o[2]] for i, o in enumerate(d["offs"][:n])])
    R = Rotation.from_rotvec(np.array([r["rv"] for r in d["rots"][:n]]))
    scale = d["scale"]
    feats = pl.DataFrame({"uid": list(range(n)), "g": [g % 2 for g in d["grp"][:n]]})
    mole = Molecules(pos * scale, R, features=feats)

    def wrap(t, ti):
        if d["chunks"] is None:
            return t
        ch = tuple(tuple(c) for c in d["chunks"])
        # chunk spec drawn for a cube S; extend along x for tomograms holding several particles
        cx = list(ch[2])
        full = []
        while sum(full) < t.shape[2]:
            full.extend(cx)
        acc, out = 0, []
        for c in full:
            if acc + c >= t.shape[2]:
                out.append(t.shape[2] - acc)
                break
            out.append(c)
            acc += c
        return da.from_array(t, chunks=(ch[0], ch[1], tuple(out)))

    kind = d["loader"]
    if kind in ("single", "group"):
        loader = SubtomogramLoader(wrap(tomos[0], 0), mole, order=d["order"], scale=scale, output_shape=shape)
    elif kind == "batch":
        loader = BatchLoader(order=d["order"], scale=scale, output_shape=shape)
        for t in range(ntomo):
            idx = [i for i in range(n) if tomo_of[i] == t]
            if idx:
                loader.add_tomogram(wrap(tomos[t], t), mole.subset(idx), image_id=t)
    elif kind == "mock":
        tmpl = gen.smooth_noise(d["seed"] + 9, shape, sigma=1.0)
        small = Molecules((pos - pos.mean(0)) * 0.05 * scale, R, features=feats)
        loader = MockLoader(tmpl, small, order=d["order"], scale=scale)
    else:
        raise HarnessError(kind)
    return loader, tomos, tomo_of


def judge_mean(d):
    out = []
    with warnings.catch_warnings():
        warnings.simplefilter("ignore")
        loader, tomos, tomo_of = build(d)
        n = d["n"]
        subs = loader.asnumpy()
        rng = float(subs.max()) - float(subs.min()) + 1e-9
        avg = loader.average()
        tag = f"loader={d['loader']} n={n} shape={tuple(d['shape'])} chunks={'dask' if d['chunks'] else 'numpy'}"
        if avg.shape != subs.shape[1:]:
            out.append(viol("C09/average-shape", f"{tag}: average shape {avg.shape}"))
            return out
        e = float(np.abs(avg.astype(np.float64) - subs.astype(np.float64).mean(0)).max())
        if not e <= 1e-5 * rng:
            out.append(viol(f"C09/average-not-mean:{d['loader']}", f"{tag}: |average - mean(subtomograms)| = {e:.3g} (range {rng:.3g})", err=e))
        if d["loader"] == "batch":
            tot = np.zeros(avg.shape, dtype=np.float64)
            cnt = 0
            for sub in loader.loaders:
                c = sub.count()
                tot += sub.average().astype(np.float64) * c
                cnt += c
            e = float(np.abs(tot / cnt - avg).max())
            if cnt != n or not e <= 1e-5 * rng:
                out.append(viol("C09/batch-not-count-weighted", f"{tag}: batch average differs from the count-weighted mean of per-tomogram averages by {e:.3g} (counts {cnt}/{n})"))
        if d["loader"] == "group":
            grp = loader.groupby("g")
            gavg = grp.average()
            keys = []
            for key, sub in loader.groupby("g"):
                keys.append(key)
                want = sub.asnumpy().astype(np.float64).mean(0)
                if key not in gavg:
                    out.append(viol("C09/group-key-missing", f"{tag}: group {key} missing from group average"))
                    continue
                e = float(np.abs(gavg[key] - want).max())
                if not e <= 1e-5 * rng:
                    out.append(viol("C09/group-average", f"{tag}: group {key} average differs from the mean of its own subtomograms by {e:.3g}"))
            if sorted(map(str, gavg.keys())) != sorted(map(str, keys)):
                out.append(viol("C09/group-keys", f"{tag}: group average keys {list(gavg.keys())} vs groups {keys}"))
        # the stack of subtomograms may be split into blocks of unequal length along the particle axis (dask's
        # array.chunk-size): the average is still the mean over all particles
        per = d.get("stack_block")
        if per and n >= 2:
            import dask
            nbytes = int(np.prod(subs.shape[1:])) * 4 * per
            with dask.config.set({"array.chunk-size": nbytes}):
                avg_b = loader.average()
            e = float(np.abs(avg_b.astype(np.float64) - subs.astype(np.float64).mean(0)).max())
            if not e <= 1e-5 * rng:
                out.append(viol(f"C09/average-not-mean:stack-blocks", f"{tag}: with dask array.chunk-size = {per} subtomograms per block "
                                f"|average - mean(subtomograms)| = {e:.3g} (range {rng:.3g})", err=e))
        if d["chunks"] is not None and d["loader"] != "mock":
            d2 = dict(d)
            d2["chunks"] = None
            l2, _, _ = build(d2)
            s2 = l2.asnumpy()
            if s2.shape != subs.shape or not float(np.abs(s2 - subs).max()) <= 1e-6 * rng:
                out.append(viol("C09/chunking-changes-subtomograms", f"{tag}: asnumpy differs between numpy and dask({d['chunks']}) input by {np.abs(s2 - subs).max():.3g}"))
            e = float(np.abs(l2.average() - avg).max())
            if not e <= 1e-6 * rng:
                out.append(viol("C09/chunking-changes-average", f"{tag}: average differs between numpy and chunked input by {e:.3g}"))
    return out


def decode(v, n):
    """subsets S of range(n) with mean(2^i for i in S) == v (v constant half-map)."""
    hits = []
    for k in range(1, n + 1):
        tot = v * k
        r = round(tot)
        if abs(tot - r) <= 1e-3 * max(1.0, tot) * 1e-2 + 1e-3 and 0 < r < 2 ** n and bin(r).count("1") == k:
            hits.append(frozenset(i for i in range(n) if (r >> i) & 1))
    return hits


def judge_split(d):
    from acryo import SubtomogramLoader, BatchLoader, Molecules
    import polars as pl
    import dask.array as da

    out = []
    n = d["n"]
    shape = tuple(d["shape"])
    S = max(shape) + 4
    ntomo = d["ntomo"]
    tomo_of = [t % ntomo for t in d["tomo_of"][:n]]
    per = [[i for i in range(n) if tomo_of[i] == t] for t in range(ntomo)]
    tomos, pos = [], np.zeros((n, 3))
    for t in range(ntomo):
        arr = np.zeros((S, S, S * max(1, len(per[t]))), dtype=np.float32)
        for sidx, i in enumerate(per[t]):
            arr[:, :, sidx * S:(sidx + 1) * S] = float(2 ** i)
            pos[i] = [S // 2, S // 2, sidx * S + S // 2]
        tomos.append(arr)
    scale = d["scale"]
    feats = pl.DataFrame({"uid": list(range(n)), "g": [g % 2 for g in d["grp"][:n]]})
    mole = Molecules(pos * scale, features=feats)
    kind = d["loader"]

    def wrap(t):
        if d["chunks"] is None:
            return t
        return da.from_array(t, chunks=(S // 2 + 1, S, S - 3))

    if kind == "batch":
        loader = BatchLoader(order=1, scale=scale, output_shape=shape)
        for t in range(ntomo):
            if per[t]:
                loader.add_tomogram(wrap(tomos[t]), mole.subset(per[t]), image_id=t)
        order_uids = loader.molecules.features["uid"].to_list()
    else:
        loader = SubtomogramLoader(wrap(tomos[0]), mole, order=1, scale=scale, output_shape=shape)
        order_uids = list(range(n))
    tag = f"loader={kind} n={n} n_set={d['n_set']} seed={d['split_seed']}"
    with warnings.catch_warnings():
        warnings.simplefilter("ignore")
        if kind == "group":
            res = loader.groupby("g").average_split(n_set=d["n_set"], seed=d["split_seed"], squeeze=False)
            res2 = loader.groupby("g").average_split(n_set=d["n_set"], seed=d["split_seed"], squeeze=False)
            items = []
            for key, sub in loader.groupby("g"):
                items.append((key, res.get(key), res2.get(key), sub.molecules.features["uid"].to_list(), sub.average()))
        else:
            h = loader.average_split(n_set=d["n_set"], seed=d["split_seed"], squeeze=False)
            h = np.array(h, copy=True)
            # an FSC evaluation in between (it normalises its own half maps) must not change what the next call returns
            if d.get("fsc_between"):
                loader.fsc(seed=d["split_seed"], n_set=d["n_set"])
            h2 = loader.average_split(n_set=d["n_set"], seed=d["split_seed"], squeeze=False)
            items = [("all", h, h2, order_uids, loader.average())]
            fh = loader.fsc_with_halfmaps(seed=d["split_seed"], n_set=d["n_set"], zero_norm=False, squeeze=False)
            hm = np.stack([fh.halfmaps[0], fh.halfmaps[1]], axis=1)
            if hm.shape != h.shape or not np.allclose(hm, h, rtol=1e-6):
                out.append(viol("C09/fsc-halfmaps-differ", f"{tag}: fsc_with_halfmaps half-maps != average_split with the same seed"))
    for key, h, h2, uids, full in items:
        m = len(uids)
        if h is None:
            out.append(viol("C09/split-group-missing", f"{tag}: group {key} missing"))
            continue
        if h.shape != (d["n_set"], 2) + shape:
            out.append(viol("C09/split-shape", f"{tag}: group {key}: average_split shape {h.shape}"))
            continue
        if not np.array_equal(h, h2, equal_nan=True):
            out.append(viol("C09/split-not-reproducible", f"{tag}: group {key}: same seed gave different half-maps"))
        for s in range(d["n_set"]):
            consts = []
            for half in (0, 1):
                a = h[s, half]
                if not np.all(np.isfinite(a)):
                    if m >= 2:
                        out.append(viol("C09/split-empty-half", f"{tag}: group {key} set {s}: half {half} is not finite (empty half) for {m} molecules"))
                    consts.append(None)
                    continue
                if float(a.max() - a.min()) > 1e-3 * float(abs(a).max()):
                    out.append(viol("C09/split-not-constant", f"{tag}: half-map is not constant (harness expectation broken?)"))
                    consts.append(None)
                    continue
                consts.append(float(a.mean()))
            if any(c is None for c in consts):
                continue
            # decode within this group's molecules: relabel bits to uids
            c0 = decode(consts[0], 16)
            c1 = decode(consts[1], 16)
            ok = False
            for s0 in c0:
                for s1 in c1:
                    if s0.isdisjoint(s1) and (s0 | s1) == set(uids) and s0 and s1:
                        ok = True
                        w = (len(s0) * consts[0] + len(s1) * consts[1]) / m
                        if not abs(w - float(full.mean())) <= 1e-4 * abs(w):
                            out.append(viol("C09/split-weighted-mean", f"{tag}: count-weighted mean of the halves {w} != full average {float(full.mean())}"))
            if not ok and m >= 2:
                out.append(viol("C09/split-not-a-partition", f"{tag}: group {key} set {s}: half-map constants {consts} decode to {list(map(sorted, c0))} / "
                                f"{list(map(sorted, c1))}, not a partition of molecules {sorted(uids)} into two non-empty halves"))
    return out


@st.composite
def mean_cases(draw):
    n = draw(st.one_of(st.integers(1, 5), st.integers(1, 16)))
    shape = draw(gen.box_shapes(3, 9))
    S = max(shape) + 8
    kind = draw(st.sampled_from(["single", "batch", "group", "mock"]))
    chunks = draw(gen.chunkings([S, S, S], min_chunk=3)) if draw(st.booleans()) else None
    return {"loader": kind, "n": n, "shape": shape, "seed": draw(gen.seeds), "scale": draw(gen.scales),
            "order": draw(st.sampled_from([0, 1, 3])), "ntomo": draw(st.integers(2, 3)) if kind == "batch" else 1,
            "tomo_of": [draw(st.integers(0, 2)) for _ in range(16)], "grp": [draw(st.integers(0, 1)) for _ in range(16)],
            "offs": [[round(draw(st.floats(-1.5, 1.5)), 2) for _ in range(3)] for _ in range(n)],
            "rots": [draw(gen.rotvecs()) for _ in range(n)], "chunks": chunks,
            "stack_block": draw(st.sampled_from([None, 1, 2, 3, 5])), "tdtype": draw(st.sampled_from(["float32", "float32", "float32", "int16"]))}


@st.composite
def split_cases(draw):
    n = draw(st.integers(2, 12))
    kind = draw(st.sampled_from(["single", "batch", "group"]))
    grp = [draw(st.integers(0, 1)) for _ in range(16)]
    if kind == "group":
        # each group needs >= 2 molecules for a defined split
        grp[:4] = [0, 1, 0, 1]
        n = max(n, 4)
    return {"loader": kind, "n": n, "shape": draw(gen.box_shapes(1, 5)), "scale": draw(st.sampled_from([1.0, 0.5, 2.0])),
            "ntomo": draw(st.integers(2, 3)) if kind == "batch" else 1, "tomo_of": [draw(st.integers(0, 2)) for _ in range(16)],
            "grp": grp, "n_set": draw(st.integers(1, 3)), "split_seed": draw(st.integers(0, 10 ** 6)),
            "chunks": draw(st.sampled_from([None, "dask"])), "fsc_between": draw(st.booleans())}


def nontrivial(d):
    return (d["n"] >= 3 and d.get("chunks") is not None) or "split_seed" in d


def engines():
    return [
        Engine("mean", judge_mean, strategy=mean_cases(), nontrivial=nontrivial,
               labels=lambda d: [f"loader:{d['loader']}", "dask" if d["chunks"] else "numpy", f"order:{d['order']}", "n:1" if d["n"] == 1 else "n:>1"],
               cases={"quick": 100, "thorough": 4000}, shards={"quick": 8, "thorough": 16}, shrink={"quick": False, "thorough": True}),
        Engine("split", judge_split, strategy=split_cases(), nontrivial=nontrivial,
               labels=lambda d: [f"loader:{d['loader']}", f"n_set:{d['n_set']}", "n:2" if d["n"] == 2 else "n:>2"],
               cases={"quick": 60, "thorough": 3000}, shards={"quick": 6, "thorough": 16}, shrink={"quick": False, "thorough": True}),
    ]
