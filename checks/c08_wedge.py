"""C08 - Missing-wedge masks follow the tilt geometry."""
from __future__ import annotations

import itertools
import warnings

import numpy as np
from hypothesis import strategies as st

from vlib import gen, ref
from vlib.runner import Engine, viol

PROPERTY = "C08"
RULE = ("Hypothesis draws (box shape in [1..12]^3 with parity classes, orientation class incl. identity / 24 cube "
        "rotations / pi / tiny / generic, tilt range -90<=min<max<=90 incl. +-90, narrow and asymmetric ranges, "
        "tilt axis x|y); every entry point (tilt models, Backend helper, acryo._utils function, alignment model "
        "with tilt given as tuple / model object / legacy keyword, mask_missing_wedge) is compared bin by bin with "
        "rule W (physical frequency k/N mapped by the orientation, kept iff between the two tilt planes) in "
        "float64; bins within 1e-5 relative of a plane are skipped and counted. Enumerated part: every axis "
        "length 1..16 on each axis and every (a,b,c) in {4,5,6,7}^3 x 4 orientations x 3 ranges. "
        "Non-trivial = odd or non-cubic box, or non-identity orientation; distinct = descriptor hash.")
TOLERANCES = {"tie margin": "min(|d0|,|d1|) <= 1e-5 |f| skipped", "realness (odd boxes)": "1e-5 relative"}
ASSUMPTIONS = ["handedness of the tilt angle is taken from the implementation on even cubic boxes",
               "numpy backend only"]


_SHARED = []


def _shared_backend():
    from acryo.backend import Backend
    if not _SHARED:
        _SHARED.append(Backend())
    return _SHARED[0]


def masks_from_entry_points(R, tilt, shape, axis):
    """name -> boolean array"""
    from acryo.tilt import single_axis
    from acryo.backend import Backend
    from acryo import _utils
    from acryo.alignment import ZNCCAlignment, PCCAlignment

    tilt = (float(tilt[0]), float(tilt[1]))
    shape = tuple(int(s) for s in shape)
    out = {}
    out[f"tilt.single_axis[{axis}]"] = single_axis(tilt, axis).create_mask(R, shape)
    if axis == "y":
        be = Backend()
        out["backend"] = be.asnumpy(be.missing_wedge_mask(R, tilt, shape))
        sb = _shared_backend()  # one long-lived Backend object: helpers cached per backend are re-used
        out["backend[shared]"] = sb.asnumpy(sb.missing_wedge_mask(R, tilt, shape))
        out["utils"] = _utils.missing_wedge_mask(R, tilt, shape)
        quat = R.as_quat()
        tmpl = np.ones(shape, dtype=np.float32)
        out["model[tuple]"] = ZNCCAlignment(tmpl, tilt=tilt).get_missing_wedge_mask(quat)
        out["model[object]"] = PCCAlignment(tmpl, tilt=single_axis(tilt, "y")).get_missing_wedge_mask(quat)
        with warnings.catch_warnings():
            warnings.simplefilter("ignore")
            out["model[legacy-kw]"] = ZNCCAlignment(tmpl, tilt_range=tilt).get_missing_wedge_mask(quat)
    else:
        quat = R.as_quat()
        tmpl = np.ones(shape, dtype=np.float32)
        out["model[object-x]"] = ZNCCAlignment(tmpl, tilt=single_axis(tilt, "x")).get_missing_wedge_mask(quat)
    return {k: np.asarray(v) for k, v in out.items()}


def judge(d):
    from acryo.tilt import single_axis, dual_axis, no_wedge
    from acryo.alignment import ZNCCAlignment

    shape = tuple(d["shape"])
    R = gen.rot(d["rot"])
    tilt = tuple(d["tilt"])
    axis = d["axis"]
    out = []
    kept, tie = ref.wedge_reference(R, tilt, shape, axis)
    cmp = ~tie
    zero = (0, 0, 0)
    negidx, has_neg = ref.negate_index(shape)
    masks = masks_from_entry_points(R, tilt, shape, axis)
    for name, m in masks.items():
        if m.shape != shape:
            out.append(viol(f"C08/shape:{name}", f"{name}: mask shape {m.shape} != {shape}"))
            continue
        mb = m.astype(bool) if m.dtype != bool else m
        if not np.array_equal(mb.astype(m.dtype), m):
            out.append(viol(f"C08/non-binary:{name}", f"{name}: mask is not binary"))
        nbad = int(((mb != kept) & cmp).sum())
        if nbad:
            idx = np.argwhere((mb != kept) & cmp)[0].tolist()
            out.append(viol(f"C08/geometry:{name}",
                            f"{name}: {nbad}/{int(cmp.sum())} bins differ from the tilt-plane rule "
                            f"(shape={shape} tilt={tilt} axis={axis} rot={d['rot']['rv']}) first at bin {idx}",
                            nbad=nbad))
        if not mb[zero]:
            out.append(viol(f"C08/zero-frequency:{name}", f"{name}: zero frequency removed"))
        # round 8: symmetry is asserted on every bin whose negative exists, also on bins lying on a wedge plane (their
        # membership is rounding noise, their symmetry is not: dot(-k) = -dot(k) exactly)
        asym = (mb != mb[negidx]) & has_neg
        if asym.any():
            out.append(viol(f"C08/asymmetric:{name}",
                            f"{name}: mask[k] != mask[-k] on {int(asym.sum())} bins (shape={shape})"))
        if all(n % 2 for n in shape):
            img = gen.noise(d["seed"], shape, np.float64)
            back = np.fft.ifftn(np.fft.fftn(img) * (mb | tie))
            im = float(np.abs(back.imag).max())
            if not im <= 1e-5 * float(np.abs(img).max()):
                out.append(viol(f"C08/not-real:{name}", f"{name}: masking a real image gives imag part {im:.3g}"))
    # repeated / interleaved calls (cached helpers must not carry state between calls)
    R2 = gen.rot(d["rot2"]) if "rot2" in d else R.inv()
    t2 = tuple(d["tilt2"])
    kept2, tie2 = ref.wedge_reference(R2, t2, shape, axis)
    other = masks_from_entry_points(R2, t2, shape, axis)
    for name, m in other.items():
        if m.shape == shape and ((m.astype(bool) != kept2) & ~tie2).any():
            out.append(viol(f"C08/geometry-second-call:{name}",
                            f"{name}: second call on the same shape (tilt={t2}) differs from the rule on "
                            f"{int(((m.astype(bool) != kept2) & ~tie2).sum())} bins (shape={shape})"))
    again = masks_from_entry_points(R, tilt, shape, axis)
    for name, m in again.items():
        if name in masks and not np.array_equal(m, masks[name]):
            out.append(viol(f"C08/repeat-call-differs:{name}",
                            f"{name}: the same call gave a different mask the third time (shape={shape})"))
    # pairwise equality of entry points (non-tie bins)
    names = sorted(k for k, v in masks.items() if v.shape == shape)
    for a, b in itertools.combinations(names, 2):
        nd = int(((masks[a].astype(bool) != masks[b].astype(bool)) & cmp).sum())
        if nd:
            out.append(viol("C08/entry-points-disagree", f"{a} vs {b}: {nd} bins differ "
                            f"(shape={shape} tilt={tilt})"))
    # mask_missing_wedge applies exactly the mask
    if axis == "y":
        tm = ZNCCAlignment(np.ones(shape, dtype=np.float32), tilt=tilt)
        spec = np.fft.fftn(gen.noise(d["seed"] + 1, shape)).astype(np.complex64)
        got = np.asarray(tm.mask_missing_wedge(spec, R.as_quat()))
        want = spec * masks["model[tuple]"]
        if got.shape != shape or not np.allclose(got, want, rtol=1e-6, atol=1e-6):
            out.append(viol("C08/mask_missing_wedge", "mask_missing_wedge(image) != image * mask"))
    # no wedge
    nw = np.asarray(no_wedge().create_mask(R, shape))
    if nw.shape != shape or not np.all(nw == 1):
        out.append(viol("C08/no-wedge", "no_wedge mask is not all ones"))
    nwm = np.asarray(ZNCCAlignment(np.ones(shape, dtype=np.float32)).get_missing_wedge_mask(R.as_quat()))
    if nwm.shape != shape or not np.all(nwm == 1):
        out.append(viol("C08/no-wedge-model", "model without tilt does not keep everything"))
    # dual axis = union
    t2 = tuple(d["tilt2"])
    du = np.asarray(dual_axis(tilt if axis == "y" else t2, t2 if axis == "y" else tilt).create_mask(R, shape))
    ty, tx = (tilt, t2) if axis == "y" else (t2, tilt)
    my = np.asarray(single_axis(ty, "y").create_mask(R, shape)).astype(bool)
    mx = np.asarray(single_axis(tx, "x").create_mask(R, shape)).astype(bool)
    if du.shape != shape or not np.array_equal(du.astype(bool), my | mx):
        out.append(viol("C08/dual-not-union", "dual_axis mask != union of its single-axis masks"))
    ky, ty_ = ref.wedge_reference(R, ty, shape, "y")
    kx, tx_ = ref.wedge_reference(R, tx, shape, "x")
    c2 = ~(ty_ | tx_)
    if du.shape == shape and ((du.astype(bool) != (ky | kx)) & c2).any():
        out.append(viol("C08/geometry:dual", f"dual-axis mask differs from the union rule on "
                        f"{int(((du.astype(bool) != (ky | kx)) & c2).sum())} bins (shape={shape})"))
    return out


def judge_invalid(d):
    """invalid tilt ranges must raise ValueError at every way of specifying them."""
    from acryo.tilt import single_axis
    from acryo.alignment import ZNCCAlignment

    t = tuple(d["tilt"])
    out = []
    tmpl = np.ones((4, 4, 4), dtype=np.float32)
    ways = {
        "single_axis[y]": lambda: single_axis(t, "y"),
        "single_axis[x]": lambda: single_axis(t, "x"),
        "model[tuple]": lambda: ZNCCAlignment(tmpl, tilt=t),
    }
    for name, fn in ways.items():
        try:
            fn()
        except ValueError:
            continue
        out.append(viol(f"C08/invalid-range-accepted:{name}", f"{name} accepted tilt range {t}"))
    return out


@st.composite
def tilts(draw):
    cls = draw(st.sampled_from(["sym", "asym", "edge90", "narrow", "full", "generic"]))
    if cls == "sym":
        a = float(draw(st.integers(1, 89)))
        return [-a, a]
    if cls == "edge90":
        if draw(st.booleans()):
            return [-90.0, float(draw(st.integers(-89, 90)))]
        return [float(draw(st.integers(-90, 89))), 90.0]
    if cls == "full":
        return [-90.0, 90.0]
    if cls == "narrow":
        lo = round(draw(st.floats(-90, 85)), 1)
        return [lo, round(min(90.0, lo + draw(st.floats(0.5, 5.0))), 1)]
    lo = round(draw(st.floats(-90, 88)), 1)
    hi = round(draw(st.floats(lo + 1.0, 90.0)), 1)
    return [lo, min(hi, 90.0)]


@st.composite
def cases(draw):
    return {"shape": draw(gen.box_shapes(1, 12)), "rot": draw(gen.rotvecs()), "rot2": draw(gen.rotvecs()),
            "tilt": draw(tilts()),
            "tilt2": draw(tilts()), "axis": draw(st.sampled_from(["y", "y", "x"])), "seed": draw(gen.seeds)}


@st.composite
def invalid_cases(draw):
    cls = draw(st.sampled_from(["min>=max", "below", "above"]))
    if cls == "min>=max":
        a = round(draw(st.floats(-90, 90)), 1)
        b = round(draw(st.floats(-90, a)), 1)
        return {"tilt": [a, b], "cls": cls}
    if cls == "below":
        return {"tilt": [round(draw(st.floats(-400, -90.1)), 1), round(draw(st.floats(-89, 90)), 1)], "cls": cls}
    return {"tilt": [round(draw(st.floats(-90, 89)), 1), round(draw(st.floats(90.1, 400)), 1)], "cls": cls}


def nontrivial(d):
    s = d["shape"]
    return any(n % 2 for n in s) or len(set(s)) > 1 or d["rot"]["cls"] != "identity"


def labels(d):
    t = d["tilt"]
    tc = "tilt:full" if t == [-90.0, 90.0] else "tilt:edge90" if 90.0 in (abs(t[0]), abs(t[1])) else \
        "tilt:narrow" if t[1] - t[0] <= 5 else "tilt:sym" if t[0] == -t[1] else "tilt:asym"
    return gen.parity_class(d["shape"]) + [f"rot:{d['rot']['cls']}", tc, f"axis:{d['axis']}"]


def grid(tier):
    rots = [{"cls": "identity", "rv": [0.0, 0.0, 0.0]}, {"cls": "generic", "rv": [0.3, -0.5, 0.9]},
            {"cls": "cube", "rv": gen.cube_rotations()[5]}, {"cls": "generic", "rv": [-1.1, 0.4, 0.2]}]
    ranges = [[-60.0, 60.0], [-40.0, 70.0], [-90.0, 30.0]]
    # round 8: bins lying exactly on a wedge plane (+-45 degrees, equal lengths across the tilt axis, axis-aligned orientations)
    for shape in ([5, 5, 5], [7, 7, 7], [9, 4, 9], [7, 5, 7], [6, 6, 6], [4, 9, 9]):
        for t in ([-45.0, 45.0], [-45.0, 30.0], [-60.0, 45.0]):
            for r in (rots[0], rots[2]):
                for axis in ("y", "x"):
                    yield {"shape": shape, "rot": r, "tilt": t, "tilt2": ranges[0], "axis": axis, "seed": 3}
    for n in range(1, 17):
        for ax in range(3):
            for other in (1, 5):
                shape = [other] * 3
                shape[ax] = n
                for r in rots[:2]:
                    yield {"shape": shape, "rot": r, "tilt": ranges[1], "tilt2": ranges[0], "axis": "y", "seed": n}
                yield {"shape": shape, "rot": rots[1], "tilt": ranges[0], "tilt2": ranges[2], "axis": "x", "seed": n}
    sizes = (4, 5, 6, 7) if tier == "thorough" else (4, 5)
    for a, b, c in itertools.product(sizes, repeat=3):
        for r in rots:
            for t in ranges:
                yield {"shape": [a, b, c], "rot": r, "tilt": t, "tilt2": ranges[0], "axis": "y", "seed": a}


def engines():
    return [
        Engine("random", judge, strategy=cases(), nontrivial=nontrivial, labels=labels,
               cases={"quick": 500, "thorough": 40000}, shards={"quick": 4, "thorough": 16}),
        Engine("grid", judge, enumerate=grid, nontrivial=nontrivial, labels=labels,
               shards={"quick": 4, "thorough": 8}),
        Engine("invalid", judge_invalid, strategy=invalid_cases(), labels=lambda d: [f"invalid:{d['cls']}"],
               cases={"quick": 100, "thorough": 2000}, shards={"quick": 1, "thorough": 2}),
    ]
