"""C11 - Molecule poses obey rigid-motion algebra in z,y,x order."""
from __future__ import annotations

import warnings

import numpy as np
from hypothesis import strategies as st
from scipy.spatial.transform import Rotation

from vlib import gen, ref
from vlib.runner import Engine, viol

PROPERTY = "C11"
RULE = ("Hypothesis draws a batch of 1..6 molecules (orientation classes identity / 24 axis-aligned / exactly pi / "
        "tiny / near-pi / generic, mixed within a batch), positions, and a sequence of <= 8 operations "
        "(translate, translate_internal, rotate_by, rotate_by_rotvec/quaternion/matrix/euler_angle, "
        "rotate_by_rotvec_internal; copy True/False; per-molecule or broadcast arguments). A float64 scipy "
        "Rotation model is advanced in lock step. Round trips (quat, rotvec, matrix, 24 Euler sequences x "
        "xyz/zyx x degrees, from_axes for the three axis pairs with positive rescaling), affine matrices and "
        "local coordinates are checked on the initial and the final state. Enumerated part: from_axes on all "
        "24 axis-aligned frames, singly and in mixed batches. Non-trivial = the batch has a 180-degree / "
        "axis-aligned / near-pi member, or the sequence mixes world and internal operations.")
TOLERANCES = {"rotation": "geodesic angle <= 1e-6 rad (float64 algebra)", "position": "2e-3 per step (float32 storage, |pos|<=500)",
              "local_coordinates": "1e-3 px (float32)"}
ASSUMPTIONS = ["Euler convention for order='xyz' is only checked through round trips and self-consistency "
               "(rotate_by_euler_angle == left-multiplication by from_euler), not pinned to an external convention",
               "linear_transform is not modelled: the property does not state its semantics"]
RULE += (" " + 'Also: one molecule given by a 1-D position and a single Rotation / 1-D quaternion / rotation vector / Euler angles / one matrix; quaternions that are not normalised; affine_matrix source points as float32 / uint16 / int32 arrays.')

INTRINSIC = ["XYZ", "XZY", "YXZ", "YZX", "ZXY", "ZYX", "XYX", "XZX", "YXY", "YZY", "ZXZ", "ZYZ"]
SEQS = INTRINSIC + [s.lower() for s in INTRINSIC]
E0, E1, E2 = np.eye(3)


def rots_of(rvs):
    return Rotation.from_rotvec(np.asarray(rvs, dtype=np.float64).reshape(-1, 3))


def ang(Ra, Rb):
    return float(np.max((Ra.inv() * Rb).magnitude()))


def check_state(tag, m, pos, R, out, ptol):
    """m: Molecules, pos/R: model."""
    n = len(R)
    if len(m) != n or m.pos.shape != (n, 3) or len(m.rotator) != n:
        out.append(viol("C11/length", f"{tag}: lengths differ (len={len(m)}, pos={m.pos.shape}, rot={len(m.rotator)}) expected {n}"))
        return False
    pe = float(np.abs(m.pos.astype(np.float64) - pos).max())
    if not pe <= ptol:
        out.append(viol("C11/position", f"{tag}: position differs from the rigid-motion model by {pe:.4g}"))
    re = ang(m.rotator, R)
    if not re <= 1e-6:
        out.append(viol("C11/orientation", f"{tag}: orientation differs from the rigid-motion model by {re:.3g} rad"))
    return pe <= ptol and re <= 1e-6


def check_axes(tag, m, R, out):
    M = R.as_matrix()
    for name, col, e in (("z", 0, E0), ("y", 1, E1), ("x", 2, E2)):
        v = np.atleast_2d(getattr(m, name))
        if not np.allclose(v, M[:, :, col], atol=1e-9):
            out.append(viol(f"C11/axis-{name}", f"{tag}: {name} axis is not the image of the unit vector"))
    z, y, x = np.atleast_2d(m.z), np.atleast_2d(m.y), np.atleast_2d(m.x)
    G = np.stack([z, y, x], axis=1)
    if not np.allclose(G @ np.swapaxes(G, 1, 2), np.eye(3), atol=1e-9):
        out.append(viol("C11/orthonormal", f"{tag}: axes not orthonormal"))
    if not np.allclose(z, -np.cross(x, y), atol=1e-9):
        out.append(viol("C11/handedness", f"{tag}: z != -cross(x, y) (documented zyx right-handedness)"))


def check_roundtrips(tag, m, R, d, out):
    from acryo import Molecules

    pos = m.pos
    n = len(R)
    rt = {
        "quat": lambda: Molecules.from_quat(pos, m.quaternion()),
        # a quaternion need not be normalised (integer shorthands, averaged or rescaled quaternions)
        "quat-scaled": lambda: Molecules.from_quat(pos, m.quaternion() * d["axscale"][0]),
        "rotvec": lambda: Molecules.from_rotvec(pos, m.rotvec()),
        "matrix": lambda: Molecules.from_matrix(pos, m.matrix()),
    }
    for name, fn in rt.items():
        mm = fn()
        e = ang(mm.rotator, R)
        if not e <= 1e-6:
            out.append(viol(f"C11/roundtrip-{name}", f"{tag}: from_{name}({name}()) differs by {e:.3g} rad"))
        if name == "quat-scaled":
            check_axes(f"{tag} from_quat(scaled quaternion)", mm, R, out)
    if n == 1:
        # one molecule given by a 1-D position and a single (non-stacked) rotation / 1-D representation
        p1 = np.asarray(pos[0])
        one = {
            "Molecules(pos, single Rotation)": lambda: Molecules(p1, R[0]),
            "from_quat(1-D)": lambda: Molecules.from_quat(p1, R[0].as_quat()),
            "from_rotvec(1-D)": lambda: Molecules.from_rotvec(p1, R[0].as_rotvec()),
            "from_matrix((3, 3))": lambda: Molecules.from_matrix(p1, R[0].as_matrix()),
            "from_euler(1-D)": lambda: Molecules.from_euler(p1, R[0].as_euler(d["seq"], degrees=d["degrees"]), seq=d["seq"], degrees=d["degrees"], order="zyx"),
        }
        with warnings.catch_warnings():
            warnings.simplefilter("ignore")
            for name, fn in one.items():
                mm = fn()
                e = ang(mm.rotator, R) if len(mm) == 1 else np.inf
                if not (e <= 1e-6 and np.allclose(mm.pos, pos, atol=1e-6)):
                    out.append(viol("C11/single-molecule-form", f"{tag}: {name} gives {len(mm)} molecule(s), orientation off by {e:.3g} rad"))
    seq, deg = d["seq"], d["degrees"]
    with warnings.catch_warnings():
        warnings.simplefilter("ignore")
        a = m.euler_angle(seq, degrees=deg)
        if np.shape(a) != (n, 3):
            out.append(viol("C11/euler-shape", f"{tag}: euler_angle shape {np.shape(a)}"))
        else:
            e = ang(Molecules.from_euler(pos, a, seq=seq, degrees=deg, order="xyz").rotator, R)
            if not e <= 1e-6:
                out.append(viol("C11/roundtrip-euler-xyz", f"{tag}: from_euler(euler_angle('{seq}', degrees={deg})) differs by {e:.3g} rad"))
        a2 = R.as_euler(seq, degrees=deg)
        e = ang(Molecules.from_euler(pos, a2, seq=seq, degrees=deg, order="zyx").rotator, R)
        if not e <= 1e-6:
            out.append(viol("C11/roundtrip-euler-zyx", f"{tag}: from_euler(order='zyx') of as_euler('{seq}') differs by {e:.3g} rad"))
    # from_axes, three pairs, with positive rescaling of the inputs
    M = R.as_matrix()
    z, y, x = M[:, :, 0], M[:, :, 1], M[:, :, 2]
    s1, s2 = d["axscale"]
    pairs = {"zy": dict(z=z * s1, y=y * s2), "yx": dict(y=y * s1, x=x * s2), "zx": dict(z=z * s1, x=x * s2)}
    for name, kw in pairs.items():
        try:
            mm = Molecules.from_axes(pos, **kw)
        except Exception as e:  # noqa: BLE001
            out.append(viol(f"C11/from_axes-{name}-raises", f"{tag}: from_axes({name}) raised {type(e).__name__}: {e}"))
            continue
        if len(mm) != n:
            out.append(viol(f"C11/from_axes-{name}-length", f"{tag}: from_axes({name}) returned {len(mm)} molecules for {n}"))
            continue
        e = ang(mm.rotator, R)
        if not e <= 1e-6:
            i = int(np.argmax((mm.rotator.inv() * R).magnitude()))
            out.append(viol(f"C11/from_axes-{name}", f"{tag}: from_axes({name}) orientation differs by {e:.3g} rad "
                            f"(row {i} of {n}: z={np.round(z[i], 4).tolist()} y={np.round(y[i], 4).tolist()})"))


def check_affine_and_coords(tag, m, pos, R, d, out):
    n = len(R)
    src = np.asarray(d["src"], dtype=np.float64)
    if d.get("src_dtype", "float64") != "float64":
        src = np.round(np.abs(src))
    M = R.as_matrix()
    for inverse in (False, True):
        for dst in (None, pos[::-1].copy()):
            # the source point as float64 or as an unsigned / signed integer array (e.g. derived from a shape)
            A = m.affine_matrix(np.tile(src, (n, 1)).astype(d.get("src_dtype", "float64")), dst, inverse=inverse)
            if A.shape != (n, 4, 4):
                out.append(viol("C11/affine-shape", f"{tag}: affine_matrix shape {A.shape}"))
                continue
            target = pos if dst is None else dst
            lin = np.swapaxes(M, 1, 2) if inverse else M
            if not np.allclose(A[:, :3, :3], lin, atol=1e-5):
                out.append(viol("C11/affine-linear", f"{tag}: affine linear part is not the {'inverse ' if inverse else ''}rotation"))
            img = np.einsum("nij,j->ni", A.astype(np.float64), np.append(src, 1.0))[:, :3]
            scale = 1 + np.abs(target).max() + np.abs(src).max()
            if not np.allclose(img, target, atol=2e-5 * scale):
                out.append(viol("C11/affine-maps-src-to-dst", f"{tag}: affine matrix does not map src to dst "
                                f"(err {np.abs(img - target).max():.3g}, inverse={inverse})"))
    shape = tuple(d["lshape"])
    scale = d["lscale"]
    lc = m.local_coordinates(shape, scale, squeeze=False)
    if lc.shape != (n, 3) + shape:
        out.append(viol("C11/local-coords-shape", f"{tag}: local_coordinates shape {lc.shape}"))
        return
    for i in range(n):
        X = ref.sample_coords(m.pos[i].astype(np.float64) / scale, R[i], shape)
        err = float(np.abs(lc[i] - X).max())
        tol = 1e-5 * (np.abs(X).max() + 1) + 1e-4
        if not err <= tol:
            out.append(viol("C11/local-coords", f"{tag}: local_coordinates differ from pos/scale + R(k-(shape-1)/2) by {err:.3g} px"))
            break


def euler_rotation(angles, seq, degrees, order):
    from acryo import Molecules

    a = np.atleast_2d(angles)
    return Molecules.from_euler(np.zeros((a.shape[0], 3)), a, seq=seq, degrees=degrees, order=order).rotator


def judge(d):
    from acryo import Molecules
    import polars as pl

    out = []
    n = len(d["mols"])
    pos = np.array([m["pos"] for m in d["mols"]], dtype=np.float64)
    R = rots_of([m["rot"]["rv"] for m in d["mols"]])
    feats = pl.DataFrame({"uid": list(range(n))})
    caller_pos = pos.astype(np.float32) if d.get("pos32") else pos.copy()   # the caller's own array (float32 or float64)
    caller_copy = caller_pos.copy()
    m = Molecules(caller_pos, R, features=feats)
    frozen = []   # (object, pos snapshot, quaternion snapshot, tag): objects that later operations must not touch
    pos = m.pos.astype(np.float64)
    check_state("init", m, pos, R, out, 1e-6)
    check_axes("init", m, R, out)
    check_roundtrips("init", m, R, d, out)
    check_affine_and_coords("init", m, pos, R, d, out)
    steps = 0
    for k, op in enumerate(d["ops"]):
        name, copy = op["op"], op["copy"]
        before_pos = m.pos.copy()
        before_q = m.quaternion().copy()
        before_f = m.features.clone()
        arg = op.get("vec")
        if arg is not None:
            v = np.asarray(arg, dtype=np.float64)
            if v.ndim == 2:
                v = np.resize(v, (n, 3))
        newpos, newR = pos, R
        with warnings.catch_warnings():
            warnings.simplefilter("ignore")
            if name == "translate":
                res = m.translate(v, copy=copy)
                newpos = pos + v
            elif name == "translate_internal":
                res = m.translate_internal(v, copy=copy)
                newpos = pos + (R.apply(v) if v.ndim == 2 else R.apply(np.tile(v, (n, 1))))
            else:
                rv = np.asarray(op["rot"], dtype=np.float64)
                if rv.ndim == 2:
                    rv = np.resize(rv, (n, 3))
                Q = Rotation.from_rotvec(rv)
                if name == "rotate_by":
                    res = m.rotate_by(Q, copy=copy)
                    newR = Q * R
                elif name == "rotate_by_rotvec":
                    res = m.rotate_by_rotvec(rv, copy=copy)
                    newR = Q * R
                elif name == "rotate_by_quaternion":
                    res = m.rotate_by_quaternion(Q.as_quat(), copy=copy)
                    newR = Q * R
                elif name == "rotate_by_matrix":
                    res = m.rotate_by_matrix(Q.as_matrix(), copy=copy)
                    newR = Q * R
                elif name == "rotate_by_rotvec_internal":
                    res = m.rotate_by_rotvec_internal(rv, copy=copy)
                    newR = R * Q
                elif name == "rotate_by_euler_angle":
                    angles = np.atleast_2d(rv)  # reuse the drawn numbers as Euler angles
                    if op["degrees"]:
                        angles = np.rad2deg(angles)
                    Qe = euler_rotation(angles, op["seq"], op["degrees"], op["order"])
                    res = m.rotate_by_euler_angle(angles, seq=op["seq"], degrees=op["degrees"],
                                                  order=op["order"], copy=copy)
                    newR = Qe * R
                else:
                    raise ValueError(name)
        steps += 1
        tag = f"step {k} {name}(copy={copy})"
        if copy:
            if res is m:
                out.append(viol("C11/copy-returned-self", f"{tag}: copy=True returned the same object"))
            if not (np.array_equal(m.pos, before_pos) and np.array_equal(m.quaternion(), before_q)
                    and m.features.equals(before_f)):
                out.append(viol("C11/copy-mutated-original", f"{tag}: copy=True altered the original"))
        else:
            if res is not m:
                out.append(viol("C11/inplace-returned-new", f"{tag}: copy=False did not return self"))
        if res is not m:
            frozen.append((m, m.pos.copy(), m.quaternion().copy(), tag))
        m, pos, R = res, newpos, newR
        for obj, psnap, qsnap, ftag in frozen:
            if obj is not m and not (np.array_equal(obj.pos, psnap) and np.array_equal(obj.quaternion(), qsnap)):
                out.append(viol("C11/earlier-object-altered", f"{tag}: an object produced earlier (original of '{ftag}') was altered by a later operation on a derived object "
                                f"(max position change {np.abs(obj.pos - psnap).max():.3g})"))
                return out
        if not np.array_equal(caller_pos, caller_copy):
            out.append(viol("C11/caller-array-altered", f"{tag}: the position array passed to Molecules() by the caller was modified"))
            return out
        ok = check_state(tag, m, pos, R, out, 2e-3 * steps)
        if not m.features.equals(before_f):
            out.append(viol("C11/features-changed", f"{tag}: features changed by a rigid motion"))
        if not ok:
            return out
        pos = m.pos.astype(np.float64)  # re-anchor float32 storage
    if d["ops"]:
        check_axes("final", m, R, out)
        check_roundtrips("final", m, R, d, out)
        check_affine_and_coords("final", m, pos, R, d, out)
    return out


vec3 = st.lists(st.floats(-50, 50).map(lambda v: round(v, 3)), min_size=3, max_size=3)


@st.composite
def op_strategy(draw):
    name = draw(st.sampled_from(["translate", "translate_internal", "rotate_by", "rotate_by_rotvec",
                                 "rotate_by_quaternion", "rotate_by_matrix", "rotate_by_rotvec_internal",
                                 "rotate_by_euler_angle"]))
    op = {"op": name, "copy": draw(st.booleans())}
    per_mol = draw(st.booleans())
    if name.startswith("translate"):
        op["vec"] = draw(st.lists(vec3, min_size=1, max_size=6)) if per_mol else draw(vec3)
    else:
        if per_mol or name in ("rotate_by_matrix",):
            op["rot"] = [r["rv"] for r in draw(st.lists(gen.rotvecs(), min_size=1, max_size=6))]
        else:
            op["rot"] = draw(gen.rotvecs())["rv"]
        if name == "rotate_by_euler_angle":
            op["seq"] = draw(st.sampled_from(SEQS))
            op["degrees"] = draw(st.booleans())
            op["order"] = draw(st.sampled_from(["xyz", "zyx"]))
    return op


@st.composite
def cases(draw):
    n = draw(st.integers(1, 6))
    mols = [{"pos": [round(draw(st.floats(-500, 500)), 2) for _ in range(3)], "rot": draw(gen.rotvecs())}
            for _ in range(n)]
    return {
        "mols": mols,
        "ops": draw(st.lists(op_strategy(), min_size=0, max_size=8)),
        "seq": draw(st.sampled_from(SEQS)),
        "degrees": draw(st.booleans()),
        "axscale": [draw(st.sampled_from([1.0, 0.5, 3.0, 1e-3, 250.0])), draw(st.sampled_from([1.0, 2.0, 0.1]))],
        "src": [round(draw(st.floats(-20, 20)), 2) for _ in range(3)],
        "src_dtype": draw(st.sampled_from(["float64", "float64", "float32", "uint16", "int32"])),
        "lshape": draw(gen.box_shapes(1, 5)),
        "lscale": draw(gen.scales),
        "pos32": draw(st.booleans()),
    }


WORLD = {"translate", "rotate_by", "rotate_by_rotvec", "rotate_by_quaternion", "rotate_by_matrix", "rotate_by_euler_angle"}
INTERNAL = {"translate_internal", "rotate_by_rotvec_internal"}


def nontrivial(d):
    degenerate = any(m["rot"]["cls"] in ("cube", "pi", "nearpi") for m in d["mols"])
    names = {o["op"] for o in d["ops"]}
    return degenerate or (bool(names & WORLD) and bool(names & INTERNAL))


def labels(d):
    labs = {f"rot:{m['rot']['cls']}" for m in d["mols"]}
    labs |= {f"op:{o['op']}" for o in d["ops"]}
    labs.add(f"n:{len(d['mols'])}")
    labs.add("euler:" + ("intrinsic" if d["seq"].isupper() else "extrinsic"))
    if len({m["rot"]["cls"] for m in d["mols"]}) > 1:
        labs.add("batch:mixed-classes")
    return sorted(labs)


def axes_grid(tier):
    cube = gen.cube_rotations()
    base = {"ops": [], "seq": "ZXZ", "degrees": False, "axscale": [1.0, 1.0], "src": [1.0, 2.0, 3.0],
            "lshape": [3, 3, 3], "lscale": 1.0}
    for i, rv in enumerate(cube):
        d = dict(base)
        d["mols"] = [{"pos": [1.0, 2.0, 3.0], "rot": {"cls": "cube", "rv": rv}}]
        d["seq"] = SEQS[i % len(SEQS)]
        yield d
    # batches: every cube rotation paired with a generic one and with another cube rotation
    for i, rv in enumerate(cube):
        d = dict(base)
        d["mols"] = [{"pos": [0.0, 0.0, 0.0], "rot": {"cls": "cube", "rv": rv}},
                     {"pos": [1.0, 1.0, 1.0], "rot": {"cls": "generic", "rv": [0.3, -0.5, 0.9]}},
                     {"pos": [2.0, 2.0, 2.0], "rot": {"cls": "cube", "rv": cube[(i * 7 + 3) % 24]}}]
        yield d
    # homogeneous batches of exactly the same axis-aligned frame (all rows anti-parallel at once)
    for i, rv in enumerate(cube):
        d = dict(base)
        d["mols"] = [{"pos": [float(j), 0.0, 0.0], "rot": {"cls": "cube", "rv": rv}} for j in range(3)]
        yield d


def engines():
    return [
        Engine("random", judge, strategy=cases(), nontrivial=nontrivial, labels=labels,
               cases={"quick": 600, "thorough": 60000}, shards={"quick": 4, "thorough": 16}),
        Engine("axis-aligned-frames", judge, enumerate=axes_grid, nontrivial=nontrivial, labels=labels,
               shards={"quick": 1, "thorough": 1}),
    ]
