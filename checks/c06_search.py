"""C06 - Rotation/template search returns the best candidate, correctly labelled."""
from __future__ import annotations

import itertools
import math
import warnings

import numpy as np
from hypothesis import strategies as st
from scipy.spatial.transform import Rotation

from vlib import gen, planted
from vlib.runner import Engine, viol, HarnessError
from checks import c01_pose

PROPERTY = "C06"
RULE = ("Model level: Hypothesis draws T=1..3 distinct blob templates, a rotation set (Rotation object K=1..5 incl. "
        "identity, members >= 25 deg apart; or single-axis (max, step) ranges), a planted (j, k, d) and builds the "
        "sub-volume analytically as template j pushed forward by q_k and displaced by d; oracle: flat label = k*T+j, "
        "reported rotation == q_k exactly, shift = d, score == max over all two-candidate / single-template models, "
        "and permuting the template or rotation list permutes the label only. Loader level: particles planted from "
        "different templates are aligned through align (4-D stack), align_multi_templates and "
        "LoaderGroup.align_multi_templates (list and Mapping input); the label feature must name the template and the "
        "rotation features the searched rotation (incl. a 3 x 125 = 375-candidate search whose flat indices exceed 8 bits). Grid level (enumerated): normalize_rotations of (max, step) ranges "
        "against the documented grid (size, identity, z-major order, external single-axis rotations). "
        "Non-trivial = T > 1 and K > 1 with k != identity.")
RULE += (" " + "Also: Model.fit with several templates, binary masks given as bool / uint8 / float32 arrays, one-element template lists through the multi-template loader routes (engine 'loader-single-template'), a 3 x 125 = 375 candidate search (engine 'loader-many-candidates'), (max, step) ranges whose ratio is whole only in decimals. Round 7: group mappings that give the groups different numbers of templates (labels index each group's own list).")
TOLERANCES = {"rotation": "1e-6 rad (must be exactly a candidate)", "shift": "0.15 px", "score optimality": "2e-3 relative",
              "grid": "1e-6 rad"}
ASSUMPTIONS = ["rotation sets contain the identity (documented precondition) and have members >= 25 deg apart",
               "FSC is not used here (band-limited blob templates are degenerate for FSC, see C04)",
               "PCC scores are not normalised: with templates of unequal energy a PCC mislabel is a recorded known finding"]

MODELS = ["ZNCC", "NCC", "PCC"]


def rot_arg(spec):
    return c01_pose.rotation_candidates(spec)


def run_model(Model, templates, arg, sub, ms, mask=None):
    kw = {} if arg is None else {"rotations": arg}
    tmpl = templates[0] if len(templates) == 1 else list(templates)
    m = Model(tmpl, mask, **kw)
    return m.align(sub, ms), m


def union_mask(blobsets, shape, pad):
    """anisotropic binary mask: union of balls of radius 2.3 sigma + pad around every blob of every template"""
    c = (np.asarray(shape, dtype=np.float64) - 1) / 2
    zz, yy, xx = np.meshgrid(*[np.arange(n, dtype=np.float64) for n in shape], indexing="ij")
    m = np.zeros(shape, dtype=bool)
    for bs in blobsets:
        for b in bs:
            cb = c + np.asarray(b["u"])
            m |= ((zz - cb[0]) ** 2 + (yy - cb[1]) ** 2 + (xx - cb[2]) ** 2) <= (2.3 * b["s"] + pad) ** 2
    return m.astype(np.float32)


def judge_model(d):
    out = []
    shape = tuple(d["shape"])
    Model = c01_pose.get_model(d["model"])
    templates = [planted.render_template(b, shape) for b in d["blobsets"]]
    if d["equal_energy"]:
        templates = [(t / np.linalg.norm(t) * 10).astype(np.float32) for t in templates]
    T = len(templates)
    arg, cands = rot_arg(d["rots"])
    K = len(cands)
    j, k = d["j"] % T, d["k"] % K
    disp = np.asarray(d["d"], dtype=np.float64)
    sub = planted.render_subvolume(d["blobsets"][j], shape, cands[k], disp)
    ms = tuple(d["max_shifts"])
    norms = [float(np.linalg.norm(t)) for t in templates]
    unequal = max(norms) / min(norms) > 1.01
    tag = (f"{d['model']} T={T} K={K} rots={d['rots']['kind']} planted (j={j}, k={k}, d={np.round(disp, 3).tolist()}) "
           f"shape={shape} max_shifts={ms}")
    mask = union_mask(d["blobsets"], shape, float(np.abs(disp).max()) + 0.8) if d.get("mask") else None
    if mask is not None and d.get("mask_dtype", "float32") != "float32":
        mask = mask.astype(d["mask_dtype"])  # a binary mask handed over as a bool / uint8 array
    stol = 0.5 if mask is not None else 0.15
    tag += f" mask={'union-of-balls' if mask is not None else 'none'}"
    with warnings.catch_warnings():
        warnings.simplefilter("ignore")
        res, model = run_model(Model, templates, arg, sub, ms, mask)
    lab = int(res.label)
    mislabel_sig = "C06/pcc-unnormalised-template-choice" if (d["model"] == "PCC" and unequal and T > 1) else None
    if not (0 <= lab < T * K):
        out.append(viol("C06/label-range", f"{tag}: label {lab} outside [0, {T * K})"))
        return out
    if lab % T != j:
        out.append(viol(mislabel_sig or "C06/template-label", f"{tag}: label {lab} -> template {lab % T}, expected {j}"))
        if mislabel_sig:
            return out
    if lab // T != k and lab % T == j:
        out.append(viol("C06/rotation-index", f"{tag}: label {lab} -> rotation index {lab // T}, expected {k}"))
    qerr = planted.angle(Rotation.from_quat(np.asarray(res.quat, dtype=np.float64)), cands[k])
    if not qerr <= 1e-6 and lab % T == j:
        hit = [i for i, c in enumerate(cands) if planted.angle(Rotation.from_quat(np.asarray(res.quat, dtype=np.float64)), c) <= 1e-6]
        out.append(viol("C06/reported-rotation", f"{tag}: reported rotation is {'candidate ' + str(hit) if hit else 'not a candidate'} "
                        f"({math.degrees(qerr):.2f} deg from q_k); label={lab}"))
    serr = float(np.abs(np.asarray(res.shift, dtype=np.float64) - disp).max())
    if not serr <= stol and lab == k * T + j:
        out.append(viol("C06/shift", f"{tag}: shift {np.round(res.shift, 3).tolist()} (error {serr:.3f})"))
    # the reported rotation must be exactly the candidate the label points at
    if 0 <= lab < T * K:
        e2 = planted.angle(Rotation.from_quat(np.asarray(res.quat, dtype=np.float64)), cands[lab // T])
        if not e2 <= 1e-6:
            out.append(viol("C06/label-rotation-inconsistent", f"{tag}: label {lab} points at rotation {lab // T} but the reported "
                            f"quaternion is {math.degrees(e2):.2f} deg away from it"))
    # optimality: score == max over candidates evaluated separately
    if d["optimality"] and K * T <= 9:
        best = -np.inf
        with warnings.catch_warnings():
            warnings.simplefilter("ignore")
            for i in range(T):
                for c in range(K):
                    if K == 1:
                        r, _ = run_model(Model, [templates[i]], None, sub, ms, mask)
                    else:
                        pair = Rotation.concatenate([Rotation.identity(), cands[c]]) if planted.angle(cands[c], Rotation.identity()) > 1e-9 \
                            else None
                        if pair is None:
                            # the identity candidate is part of every {identity, q} pair model below / above; a model
                            # without rotations treats the mask differently (no spline smoothing), so it is no reference
                            continue
                        else:
                            r, _ = run_model(Model, [templates[i]], pair, sub, ms, mask)
                    best = max(best, float(r.score))
        sc = float(res.score)
        # 2e-3: the fill value used when rotating templates is a percentile of the whole template stack, so a
        # candidate evaluated in a single-template model is rotated with a marginally different fill value
        if not abs(sc - best) <= 2e-3 * max(1.0, abs(best)):
            out.append(viol("C06/not-the-best-score", f"{tag}: reported score {sc:.6g} but the best candidate evaluated alone scores {best:.6g}"))
    # metamorphic: permute templates and rotations
    if T > 1 or K > 1:
        pt = d["perm_t"][:T] if len(d["perm_t"]) >= T else list(range(T))
        pt = [p for p in pt if p < T]
        pt = pt + [i for i in range(T) if i not in pt]
        pk = [p for p in d["perm_k"] if p < K]
        pk = pk + [i for i in range(K) if i not in pk]
        if d["rots"]["kind"] == "object" and (pt != list(range(T)) or pk != list(range(K))):
            arg2 = Rotation.concatenate([cands[i] for i in pk]) if K > 1 else None
            with warnings.catch_warnings():
                warnings.simplefilter("ignore")
                res2, _ = run_model(Model, [templates[i] for i in pt], arg2, sub, ms, mask)
            lab2 = int(res2.label)
            if 0 <= lab2 < T * K:
                t2, k2 = pt[lab2 % T], pk[lab2 // T]
                if (t2, k2) != (lab % T, lab // T) and abs(float(res2.score) - float(res.score)) <= 1e-4:
                    pass  # ties between candidates are not generated; different candidate with same score is fine
                elif (t2, k2) != (lab % T, lab // T):
                    out.append(viol(mislabel_sig or "C06/permutation-changes-choice", f"{tag}: after permuting templates {pt} / rotations {pk} "
                                    f"the chosen (template, rotation) is {(t2, k2)} instead of {(lab % T, lab // T)}"))
                else:
                    if not np.allclose(res2.shift, res.shift, atol=1e-4) or not abs(float(res2.score) - float(res.score)) <= 1e-4 * max(1, abs(float(res.score))):
                        out.append(viol("C06/permutation-changes-result", f"{tag}: shift/score changed under permutation: "
                                        f"{np.round(res2.shift, 3).tolist()}/{float(res2.score):.5g} vs {np.round(res.shift, 3).tolist()}/{float(res.score):.5g}"))
    # fit: the same search driven through Model.fit (one or several templates)
    if d["fit"] and not (unequal and d["model"] == "PCC"):
        with warnings.catch_warnings():
            warnings.simplefilter("ignore")
            kw = {} if arg is None else {"rotations": arg}
            fitted, rf = Model(templates[0] if T == 1 else list(templates), mask, **kw).fit(sub, ms)
        e3 = planted.angle(Rotation.from_quat(np.asarray(rf.quat, dtype=np.float64)), cands[k])
        if not e3 <= 1e-6:
            out.append(viol("C06/fit-rotation" if T == 1 else "C06/fit-rotation:multi-template",
                            f"{tag}: fit reported a rotation {math.degrees(e3):.2f} deg from q_k"))
        elif T > 1:
            if not float(np.abs(np.asarray(rf.shift) - disp).max()) <= stol or not abs(float(rf.score) - float(res.score)) <= 2e-3 * max(1.0, abs(float(res.score))):
                out.append(viol("C06/fit-differs-from-align:multi-template", f"{tag}: fit returned shift {np.round(rf.shift, 3).tolist()} score {float(rf.score):.5g}, "
                                f"align shift {np.round(res.shift, 3).tolist()} score {float(res.score):.5g}"))
        elif float(np.abs(np.asarray(rf.shift) - disp).max()) <= 0.15 and mask is None:
            cc = np.corrcoef(fitted.ravel(), templates[0].ravel())[0, 1]
            if not cc >= 0.97:
                out.append(viol("C06/fit-not-superimposed", f"{tag}: corr(fit output, template) = {cc:.3f}"))
    return out


def judge_loader(d):
    """particles planted from different templates; loader / group multi-template entry points."""
    from acryo import SubtomogramLoader, Molecules

    out = []
    c = c01_pose.build_case(d)
    Model = c01_pose.get_model(d["model"])
    scale, order = d["scale"], d["order"]
    ms_px = d["max_shifts"]
    ms = tuple(m * scale for m in ms_px) if d["ms_form"] == "tuple" else ms_px[0] * scale
    kw = {} if c["rot_arg"] is None else {"rotations": c["rot_arg"]}
    loader = SubtomogramLoader(c["tomos"][0], c["mole"], order=order, scale=scale)
    T = len(c["templates"])
    n = len(c["mole"])
    route = d["route"]
    lname = d["label_name"]
    relabel = {}
    with warnings.catch_warnings():
        warnings.simplefilter("ignore")
        if route == "align-stack":
            res = loader.align(np.stack(c["templates"], axis=0), max_shifts=ms, alignment_model=Model, **kw).molecules
            lname = "labels"
        elif route == "multi":
            res = loader.align_multi_templates(list(c["templates"]), max_shifts=ms, alignment_model=Model, label_name=lname, **kw).molecules
        elif route in ("group-list", "group-mapping"):
            grp = loader.groupby("g")
            if route == "group-list":
                tm = list(c["templates"])
            else:
                gl = c["mole"].features["g"].to_list()
                keys = sorted(set(gl))
                tm = {key: list(c["templates"]) for key in keys}
                if d.get("uneven") and len(keys) > 1:
                    # the groups need not be given the same number of templates: the last group only gets the templates
                    # its own particles were planted from; its labels index its own list
                    used = sorted({d["particles"][i]["tmpl"] % T for i in range(n) if gl[i] == keys[-1]})
                    tm[keys[-1]] = [c["templates"][t] for t in used]
                    relabel = {i: used.index(d["particles"][i]["tmpl"] % T) for i in range(n) if gl[i] == keys[-1]}
            g2 = grp.align_multi_templates(tm, max_shifts=ms, alignment_model=Model, label_name=lname, **kw)
            res = Molecules.concat([ldr.molecules for _, ldr in g2])
        else:
            raise HarnessError(route)
    tag0 = f"{d['model']} route={route} T={T} K={len(c['cands'])} scale={scale}"
    single_path = T == 1 and route == "align-stack"  # a 1-template stack takes the plain align path: no label column
    if len(res) != n or (lname not in res.features.columns and not single_path):
        out.append(viol("C06/loader-result", f"{tag0}: {len(res)} molecules, columns {res.features.columns}"))
        return out
    uid = res.features["uid"].to_list()
    for row, i in enumerate(uid):
        want_t = d["particles"][i]["tmpl"] % T
        lab = want_t if single_path else int(res.features[lname][row])
        tag = f"{tag0} particle {i} (template {want_t}, k={c['k'][i]})"
        if i in relabel:
            tag += f" [its group was given {len(set(relabel.values()))} of the {T} templates; expected label {relabel[i]}]"
        if lab != relabel.get(i, want_t):
            out.append(viol(f"C06/loader-template-label:{route}", f"{tag}: {lname}={lab}"))
            continue
        aerr = planted.angle(res.rotator[row], c["Rstar"][i])
        if not aerr <= 1e-3:
            out.append(viol(f"C06/loader-rotation:{route}", f"{tag}: output orientation {math.degrees(aerr):.2f} deg from the planted one"))
        rv = np.array([res.features["align-dzrot"][row], res.features["align-dyrot"][row], res.features["align-dxrot"][row]])
        if not np.abs(rv - c["cands"][c["k"][i]].as_rotvec()).max() <= 2e-4:
            out.append(viol(f"C06/loader-rotation-feature:{route}", f"{tag}: align-d?rot={rv.tolist()}"))
        perr = float(np.abs(res.pos[row] - c["pstar"][i]).max()) / scale
        if not perr <= 0.25:
            out.append(viol(f"C06/loader-position:{route}", f"{tag}: position off by {perr:.3f} px"))
    return out


def judge_grid(d):
    """normalize_rotations of (max, step) ranges vs the documented grid."""
    from acryo._rotation import normalize_rotations

    out = []
    rng = [tuple(r) for r in d["ranges"]]
    arg = tuple(rng) if d["form"] == "three" else rng[0]
    if d["form"] == "single":
        rng = [rng[0]] * 3
    quats = normalize_rotations(arg)
    # angles -max, ..., max in steps: floor(max / step) steps each way (exact multiples given in decimals, such as 1.2 / 0.4,
    # count as whole)
    ns = [int(math.floor(mx / st_ + 1e-9)) if st_ > 0 else 0 for mx, st_ in rng]
    sizes = [2 * n + 1 for n in ns]
    tag = f"ranges={arg}"
    if quats.shape != (sizes[0] * sizes[1] * sizes[2], 4):
        out.append(viol("C06/grid-size", f"{tag}: {quats.shape[0]} candidates, expected {sizes[0] * sizes[1] * sizes[2]}"))
        return out
    R = Rotation.from_quat(np.asarray(quats, dtype=np.float64))
    grid = np.arange(len(R)).reshape(sizes)
    mid = grid[ns[0], ns[1], ns[2]]
    if not R[int(mid)].magnitude() <= 1e-6:
        out.append(viol("C06/grid-identity", f"{tag}: the middle candidate is not the identity"))
    # single-axis lines through the centre: rotations about that axis, angle linear in the index
    axes = np.eye(3)
    singles = []
    for a in range(3):
        line = []
        sign = None
        for i in range(sizes[a]):
            idx = [ns[0], ns[1], ns[2]]
            idx[a] = i
            r = R[int(grid[tuple(idx)])]
            ang = (i - ns[a]) * rng[a][1]
            rv = r.as_rotvec()
            want = math.radians(ang)
            if sign is None and abs(want) > 0:
                sign = 1.0 if np.dot(rv, axes[a]) * want > 0 else -1.0
            exp = axes[a] * want * (sign or 1.0)
            if not np.abs(rv - exp).max() <= 1e-5:
                out.append(viol("C06/grid-single-axis", f"{tag}: candidate {idx} is not a rotation by {ang} deg about axis {'zyx'[a]} "
                                f"(rotvec {np.round(rv, 4).tolist()}) - grid must be z-major over (z, y, x) angle lists"))
                return out
            line.append(r)
        singles.append(line)
    # every candidate = composition of its three single-axis rotations in one fixed order
    ok_orders = []
    for order in itertools.permutations(range(3)):
        good = True
        for iz, iy, ix in itertools.product(*[range(s) for s in sizes]):
            parts = [singles[0][iz], singles[1][iy], singles[2][ix]]
            comp = parts[order[0]] * parts[order[1]] * parts[order[2]]
            if planted.angle(comp, R[int(grid[iz, iy, ix])]) > 1e-5:
                good = False
                break
        if good:
            ok_orders.append(order)
    if not ok_orders:
        out.append(viol("C06/grid-composition", f"{tag}: candidates are not compositions of the single-axis z, y, x rotations"))
    return out


@st.composite
def model_cases(draw):
    model = draw(st.sampled_from(MODELS))
    par = draw(st.sampled_from(["odd", "even", "mixed", "cubic"]))
    shape = draw(gen.box_shapes(16, 20, classes=(par,)))
    cap = min(2.0, (min(shape) - 1) / 2 - 0.5 - 5.2)
    ms = [round(draw(st.floats(0.6, cap)), 2) for _ in range(3)]
    T = draw(st.sampled_from([1, 2, 2, 3, 3]))
    rkind = draw(st.sampled_from(["object", "object", "object", "axis", "none"]))
    if rkind == "object":
        lst = planted.rotation_set(draw, kmax=5)
        rots = {"kind": "object", "list": lst} if len(lst) > 1 else {"kind": "none"}
    elif rkind == "axis":
        step = float(draw(st.sampled_from([25, 30, 40])))
        rots = {"kind": "axis", "axis": draw(st.integers(0, 2)), "max": step * draw(st.integers(1, 2)), "step": step}
    else:
        rots = {"kind": "none"}
    rmax = (min(shape) - 1) / 2 - max(ms) - 0.5
    blobsets = [draw(planted.blob_offsets(rmax, variant=v)) for v in range(T)]
    return {"model": model, "shape": shape, "max_shifts": ms, "rots": rots, "blobsets": blobsets,
            "equal_energy": draw(st.booleans()), "mask": draw(st.sampled_from([False, False, True])), "mask_dtype": draw(st.sampled_from(["float32", "float32", "bool", "uint8"])),
            "j": draw(st.integers(0, 5)), "k": draw(st.integers(1, 40)),
            "d": [round(draw(st.floats(-0.9 * m, 0.9 * m)), 3) for m in ms],
            "optimality": draw(st.sampled_from([False, False, True])),
            "perm_t": draw(st.permutations([0, 1, 2])), "perm_k": draw(st.permutations([0, 1, 2, 3, 4])),
            "fit": draw(st.booleans())}


@st.composite
def loader_cases(draw):
    d = draw(c01_pose.cases(("multi",)))
    d["route"] = draw(st.sampled_from(["align-stack", "multi", "group-list", "group-mapping", "group-mapping"]))
    d["label_name"] = draw(st.sampled_from(["labels", "tmpl-id"]))
    d["uneven"] = draw(st.booleans())
    return d


@st.composite
def single_template_cases(draw):
    """one-element template lists through the multi-template entry points: the label must be 0 whatever rotation wins"""
    d = draw(c01_pose.cases(("multi",), force_T=1))
    d["route"] = draw(st.sampled_from(["multi", "group-list", "group-mapping", "group-list"]))
    d["label_name"] = draw(st.sampled_from(["labels", "tmpl-id"]))
    return d


@st.composite
def many_candidate_cases(draw):
    """T = 3 templates x 125 rotations = 375 candidates (> 256: flat indices do not fit 8 bits)."""
    d = draw(c01_pose.cases(("multi",), force_T=3, force_rots={"kind": "iso", "max": 50.0, "step": 25.0}, nmax=2))
    d["route"] = draw(st.sampled_from(["multi", "group-list"]))
    d["label_name"] = "labels"
    for p in d["particles"]:  # two thirds of the planted rotations sit at flat indices k*3+j >= 256
        if draw(st.integers(0, 2)):
            p["k"] = 86 + p["k"] % 39
    return d


@st.composite
def grid_cases(draw):
    form = draw(st.sampled_from(["three", "three", "single"]))
    ranges = []
    for _ in range(3):
        step = float(draw(st.sampled_from([2, 5, 7.5, 10, 30])))
        mx = step * draw(st.integers(0, 2)) + draw(st.sampled_from([0.0, 0.0, 0.4 * step]))
        if draw(st.sampled_from([False, False, True])):
            mx, step = 0.0, 0.0
        elif draw(st.integers(0, 3)) == 0:
            mx, step = draw(st.sampled_from([(0.3, 0.1), (1.2, 0.4), (3.3, 1.1), (0.6, 0.2), (0.9, 0.3), (2.4, 0.8)]))
        ranges.append([mx, step])
    if form == "single" and ranges[0][1] == 0:
        ranges[0] = [10.0, 5.0]
    return {"form": form, "ranges": ranges}


def nk(d):
    return c01_pose.n_candidates(d)


def nontrivial_model(d):
    K = nk(d)
    T = len(d["blobsets"])
    return T > 1 and K > 1 and (d["k"] % K) != c01_pose.identity_index(d)


def labels_model(d):
    K, T = nk(d), len(d["blobsets"])
    return gen.parity_class(d["shape"]) + [f"model:{d['model']}", f"T:{T}", f"K:{K}", f"TK:{T}x{K}", f"rots:{d['rots']['kind']}",
                                           "equal-energy" if d["equal_energy"] else "unequal-energy",
                                           "optimality-checked" if d["optimality"] and T * K <= 9 else "optimality-skipped", ("masked:" + d.get("mask_dtype", "float32")) if d.get("mask") else "unmasked"]


def labels_loader(d):
    return [f"route:{d['route']}", f"model:{d['model']}", f"T:{len(d['blobsets'])}", f"K:{min(nk(d), 27)}",
            f"label_name:{d['label_name']}"]


def engines():
    return [
        Engine("model", judge_model, strategy=model_cases(), nontrivial=nontrivial_model, labels=labels_model,
               cases={"quick": 120, "thorough": 3000}, shards={"quick": 6, "thorough": 16},
               shrink={"quick": False, "thorough": True}),
        Engine("loader", judge_loader, strategy=loader_cases(), nontrivial=c01_pose.nontrivial, labels=labels_loader,
               cases={"quick": 40, "thorough": 800}, shards={"quick": 4, "thorough": 16},
               shrink={"quick": False, "thorough": True}),
        Engine("loader-single-template", judge_loader, strategy=single_template_cases(), nontrivial=c01_pose.nontrivial, labels=labels_loader,
               cases={"quick": 24, "thorough": 400}, shards={"quick": 8, "thorough": 16}, shrink={"quick": False, "thorough": True}),
        Engine("loader-many-candidates", judge_loader, strategy=many_candidate_cases(), nontrivial=c01_pose.nontrivial, labels=labels_loader,
               cases={"quick": 12, "thorough": 96}, shards={"quick": 4, "thorough": 12}, shrink={"quick": False, "thorough": False}),
        Engine("grid", judge_grid, strategy=grid_cases(), labels=lambda d: [f"form:{d['form']}"],
               cases={"quick": 60, "thorough": 600}, shards={"quick": 1, "thorough": 2}),
    ]
