"""C20 - Particle picking finds planted particles regardless of chunking."""
from __future__ import annotations

import math
import warnings

import numpy as np
from hypothesis import strategies as st
from scipy.spatial.transform import Rotation

from vlib import gen, planted
from vlib.runner import Engine, viol, HarnessError

PROPERTY = "C20"
RULE = ("Hypothesis draws a volume (40..64 per side) with 2-6 planted particles (Gaussian blobs matched to the LoG/DoG "
        "picker, or copies of an asymmetric blob template rotated by one of K <= 4 searched rotations for the ZNCC "
        "template matcher), spaced >= 6 sigma (or 1.6 template boxes) apart and away from the faces, a pixel scale, an "
        "image dtype (float32/float64/int16/uint8) and a dask chunking (incl. chunks smaller than the overlap depth) "
        "with the particles placed relative to chunk borders (interior / on a border / on a corner shared by 8 "
        "chunks); in a third of the LoG / template-matcher cases two particles are diagonal neighbours (farther apart than the exclusion distance, but within its ceiling along every axis: point-like particles (3,3,3) px apart for sigma 2.2, compact 9-voxel template particles 5-6 px apart per axis with min_distance = 6 px); for the blob pickers one image axis in three of seven cases is a thin slab shorter than the overlap depth with the particles on its mid-plane. Oracle: picks scoring at least half the median score at the planted sites must be in bijection with "
        "the particles (within 1 px, none missed, no duplicates within the exclusion distance, none elsewhere), the "
        "template matcher must report the planted rotation, and the strong-pick set must be the same for numpy input "
        "and for the chunked input. Non-trivial = more than one chunk along an axis with a particle within the overlap "
        "depth of a chunk border, or an image axis shorter than the overlap depth.")
TOLERANCES = {"position": "1 px * scale (0.3 px for particles centred on a voxel of the response)", "numpy vs chunked positions": "0.5 px * scale", "scores numpy vs chunked": "5e-2 relative"}
ASSUMPTIONS = ["strong pick = score >= 0.5 (LoG/DoG) or 0.85 (template matcher) * median score of the picks nearest to the planted sites (weak side-lobe maxima are ignored)"]


def build_image(d):
    vol = tuple(d["vol"])
    img = np.zeros(vol, dtype=np.float64)
    if d["picker"] in ("LoG", "DoG"):
        s = d.get("psigma") or d["sigma_px"]
        for p in d["particles"]:
            blob = [{"u": [0.0, 0.0, 0.0], "s": s, "a": float(p.get("amp", 1.0))}]
            planted.render_at(blob, vol, np.asarray(p["pos"], dtype=np.float64), Rotation.identity(), out=img)
    else:
        rots = [Rotation.identity()] + [Rotation.from_rotvec(r) for r in d["rots"]]
        for p in d["particles"]:
            planted.render_at(d["blobs"], vol, np.asarray(p["pos"], dtype=np.float64), rots[p["k"] % len(rots)], out=img)
    img += d["noise"] * gen.noise(d["seed"], vol).astype(np.float64)
    img += float(d.get("baseline", 0.0))  # raw data sit on a large offset (e.g. counts around 5000 with a contrast of 1)
    dt = d["dtype"]
    if dt == "float32":
        return img.astype(np.float32)
    if dt == "float64":
        return img
    lo, hi = img.min(), img.max()
    if dt == "uint8":
        return np.round((img - lo) / (hi - lo) * 250).astype(np.uint8)
    return np.round((img - lo) / (hi - lo) * 30000 - 10000).astype(np.int16)


def run_picker(d, image):
    from acryo.pick import LoGPicker, DoGPicker, ZNCCTemplateMatcher

    scale = d["scale"]
    if d["picker"] == "LoG":
        return LoGPicker(sigma=d["sigma_px"] * scale).pick_molecules(image, scale)
    if d["picker"] == "DoG":
        return DoGPicker(sigma_low=d["sigma_px"] * scale, sigma_high=d["sigma_px"] * 1.6 * scale).pick_molecules(image, scale)
    tshape = tuple(d["tshape"])
    tmpl = planted.render_template(d["blobs"], tshape)
    rot = Rotation.from_rotvec(np.array([[0.0, 0.0, 0.0]] + d["rots"])) if d["rots"] else None
    if d.get("tmpl_as") == "provider":
        # the template as a scale-aware provider, and the same matcher object used before on an image of another pixel size
        from acryo import pipe
        matcher = ZNCCTemplateMatcher(pipe.from_array(tmpl, original_scale=scale), rotation=rot, order=1)
        if d.get("warm"):
            other = gen.smooth_noise(d["seed"] + 1, (24, 24, 24), sigma=1.0)
            matcher.pick_molecules(other, scale * 2.0, min_distance=d["min_dist_px"] * scale * 2.0, min_score=0.3)
    else:
        matcher = ZNCCTemplateMatcher(tmpl, rotation=rot, order=1)
    return matcher.pick_molecules(image, scale, min_distance=d["min_dist_px"] * scale, min_score=0.3)


def strong_picks(d, mole):
    """-> (positions px, scores, quats) of strong picks, and the threshold used"""
    scale = d["scale"]
    pos = mole.pos.astype(np.float64) / scale
    sc = mole.features["score"].to_numpy().astype(np.float64) if len(mole) else np.zeros(0)
    truth = np.array([p["pos"] for p in d["particles"]], dtype=np.float64)
    near = []
    for t in truth:
        if len(pos):
            dist = np.sqrt(((pos - t) ** 2).sum(1))
            j = int(np.argmin(dist))
            if dist[j] <= 2.0:
                near.append(sc[j])
    if not near:
        return pos[:0], sc[:0], mole.quaternion()[:0], None
    # partial overlaps of a blob template with a neighbouring particle reach about half the full score
    # (with quarter-turn candidates one matched dominant blob alone reaches 0.75 of the full score: 0.85)
    thr = ((0.9 if d.get("quarter_turns") else 0.85) if d["picker"] == "ZNCC" else 0.5) * float(np.median(near))
    keep = sc >= thr
    return pos[keep], sc[keep], mole.quaternion()[keep], thr


def judge(d):
    import dask.array as da

    out = []
    image = build_image(d)
    scale = d["scale"]
    truth = np.array([p["pos"] for p in d["particles"]], dtype=np.float64)
    excl = d["sigma_px"] if d["picker"] in ("LoG", "DoG") else d["min_dist_px"]
    chunks = tuple(tuple(c) for c in d["chunks"])
    tag = f"{d['picker']} vol={tuple(d['vol'])} dtype={d['dtype']} scale={scale} chunks={[list(c) for c in chunks]} n={len(truth)}"
    results = {}
    with warnings.catch_warnings():
        warnings.simplefilter("ignore")
        for name, inp in (("numpy", image), ("chunked", da.from_array(image, chunks=chunks))):
            try:
                mole = run_picker(d, inp)
            except HarnessError:
                raise
            except Exception as e:  # noqa: BLE001
                import traceback
                if not any("/acryo/" in f.filename for f in traceback.extract_tb(e.__traceback__)):
                    raise
                out.append(viol(f"C20/raises:{name}:{type(e).__name__}", f"{tag} input={name}: {type(e).__name__}: {str(e)[:160]}"))
                return out
            results[name] = strong_picks(d, mole)
    rots = [Rotation.identity()] + [Rotation.from_rotvec(r) for r in d.get("rots", [])]
    for name, (pos, sc, quat, thr) in results.items():
        if thr is None:
            out.append(viol(f"C20/nothing-found:{name}", f"{tag} input={name}: no pick within 2 px of any planted particle"))
            continue
        used = set()
        for i, t in enumerate(truth):
            dist = np.sqrt(((pos - t) ** 2).sum(1)) if len(pos) else np.zeros(0)
            tol_px = 0.3 if d["particles"][i].get("grid") else 1.0
            hits = [j for j in range(len(pos)) if dist[j] <= tol_px]
            if not hits:
                out.append(viol(f"C20/missed:{name}", f"{tag} input={name}: particle {i} at {t.tolist()} px has no strong pick within {tol_px} px "
                                f"(nearest at {dist.min() if len(dist) else float('nan'):.2f} px)"))
                continue
            close = [j for j in range(len(pos)) if dist[j] <= max(excl, 1.0) + 1.0]
            if len(close) > 1:
                out.append(viol(f"C20/duplicate:{name}", f"{tag} input={name}: particle {i} at {t.tolist()} px reported {len(close)} times "
                                f"(at {np.round(pos[close], 2).tolist()})", n=len(close)))
            used.update(close)
            if d["picker"] == "ZNCC":
                k = d["particles"][i]["k"] % len(rots)
                j = hits[int(np.argmin(dist[hits]))]
                ang = planted.angle(Rotation.from_quat(quat[j]), rots[k])
                if not ang <= 1e-4:
                    out.append(viol(f"C20/rotation:{name}", f"{tag} input={name}: particle {i} planted with searched rotation {k} but reported a rotation {math.degrees(ang):.1f} deg away"))
        extra = [j for j in range(len(pos)) if j not in used]
        if extra:
            out.append(viol(f"C20/spurious:{name}", f"{tag} input={name}: {len(extra)} strong pick(s) away from every particle, e.g. at {np.round(pos[extra[0]], 2).tolist()} "
                            f"(score {sc[extra[0]]:.3g}, threshold {thr:.3g})"))
    if "numpy" in results and "chunked" in results and results["numpy"][3] is not None and results["chunked"][3] is not None:
        pn, sn = results["numpy"][0], results["numpy"][1]
        pc, scc = results["chunked"][0], results["chunked"][1]
        if len(pn) != len(pc):
            out.append(viol("C20/chunking-changes-pick-count", f"{tag}: {len(pn)} strong picks from the numpy image, {len(pc)} from the chunked one"))
        else:
            for j in range(len(pn)):
                dist = np.sqrt(((pc - pn[j]) ** 2).sum(1))
                m = int(np.argmin(dist))
                if dist[m] > 0.5:
                    out.append(viol("C20/chunking-changes-position", f"{tag}: pick at {np.round(pn[j], 2).tolist()} (numpy) has no counterpart within 0.5 px in the chunked result"))
                    break
                if not abs(scc[m] - sn[j]) <= 5e-2 * abs(sn[j]) + 1e-6:
                    out.append(viol("C20/chunking-changes-score", f"{tag}: pick at {np.round(pn[j], 2).tolist()}: score {sn[j]:.4g} (numpy) vs {scc[m]:.4g} (chunked)"))
                    break
    return out


@st.composite
def cases(draw, pickers=("LoG", "DoG", "ZNCC")):
    picker = draw(st.sampled_from(list(pickers)))
    scale = draw(st.sampled_from([1.0, 0.5, 2.0, 1.37]))
    # close-pair class: two particles that are diagonal neighbours - farther apart than the exclusion distance r but within
    # ceil(r) along every axis (only a ball-shaped exclusion zone keeps both)
    pairmode = picker in ("LoG", "ZNCC") and draw(st.integers(0, 4)) >= 3
    psigma = None
    quarter_turns = False
    if picker == "ZNCC" and pairmode:
        # compact particle in a 9-voxel template, min_distance 6 px, neighbours (5..6, 5..6, 5..6) px apart (>= 8.7 px)
        tshape, ts = [9, 9, 9], 9
        blobs = draw(planted.blob_offsets(3.5, nblob=(3, 3), sigma=(0.7, 0.8), rmin=1.0))
        rots = []  # blobs at radius ~1.2 px cannot discriminate rotations (seen: 86 deg confusion at int16 quantisation)
        depth, spacing, margin, sigma_px, min_dist = 5, 15, 7, 0.8, 6.0
        pair_off = [draw(st.sampled_from([5, 6])) for _ in range(3)]
    elif picker == "ZNCC":
        if draw(st.booleans()):
            ts = draw(st.sampled_from([13, 14, 15]))
            tshape = [ts, ts, ts]
        else:
            tshape = [draw(st.sampled_from([13, 14, 15, 17])) for _ in range(3)]
        ts = max(tshape)
        blobs = draw(planted.blob_offsets((min(tshape) - 1) / 2 - 0.5, nblob=(3, 4), sigma=(0.9, 1.1), rmin=2.5))
        nrot = draw(st.integers(0, 3))
        rots = planted.rotation_set(draw, kmax=nrot + 1, min_sep_deg=35.0, max_angle_deg=90.0)[1:] if nrot else []
        if nrot and draw(st.booleans()):
            # quarter turns about the box axes: the rotations for which a wrong rotation centre displaces the template by a whole voxel
            h = math.pi / 2
            quarter = [[h, 0.0, 0.0], [0.0, h, 0.0], [0.0, 0.0, h], [-h, 0.0, 0.0], [0.0, 0.0, 2 * h]]
            rots = [list(r) for r in draw(st.lists(st.sampled_from(quarter), min_size=nrot, max_size=nrot, unique_by=tuple))]
            quarter_turns = True
        depth = int(math.ceil(ts / 2))
        spacing = int(math.ceil(1.6 * ts))
        margin = ts // 2 + 3
        sigma_px = 1.1
        min_dist = float(draw(st.sampled_from([3.0, 4.0])))
    else:
        sigma_px = draw(st.sampled_from([2.0, 2.5, 3.0]))
        if pairmode:
            # point-like particles 3 voxels apart on every axis (5.2 px = 2.1-2.4 sigma: resolved by the LoG response)
            # (sigma 2.5 would put the neighbours at 2.08 sigma: with noise the weaker one is sometimes not a maximum of its own -
            # seen once in a thorough run; 2.36 sigma is safely resolved)
            sigma_px, psigma, pair_off = 2.2, 0.8, [3, 3, 3]
        depth = int(math.ceil(5 * sigma_px)) + 1
        spacing = int(math.ceil(7 * sigma_px))
        margin = int(math.ceil(4 * sigma_px)) + 2
        tshape, blobs, rots, min_dist = None, None, [], None
    # chunk grid first, then particles relative to the borders
    vol, chunks, borders = [], [], []
    # thin-slab class (blob pickers): one image axis is shorter than the overlap depth; particles sit on its mid-plane, so the
    # response stays symmetric about their centre under the 'nearest' boundary
    thin_axis = draw(st.sampled_from([None, None, None, None, 0, 1, 2])) if (picker != "ZNCC" and not pairmode) else None
    # an axis cut into chunks that are all thinner than the overlap depth (the largest chunk counts for dask's chunksize)
    fine_axis = draw(st.sampled_from([None, None, 0, 1, 2]))
    for a in range(3):
        if a == fine_axis and a != thin_axis:
            c = draw(st.integers(3, max(3, min(6, depth - 2))))
            total = 2 * margin + spacing + draw(st.integers(0, 12))
            sizes = [c] * (total // c) + ([total % c] if total % c else [])
            vol.append(sum(sizes)), chunks.append(sizes), borders.append(list(np.cumsum(sizes)[:-1][:: max(1, len(sizes) // 4)]))
            continue
        if a == thin_axis:
            size = 2 * draw(st.integers(int(math.ceil(sigma_px)), (depth - 2) // 2)) + 1
            vol.append(size), chunks.append([size]), borders.append([])
            continue
        nchunk = draw(st.sampled_from([1, 2, 2, 3]))
        # (single chunks may be much thinner than the overlap depth: 3 voxels)
        sizes = [draw(st.one_of(st.integers(max(depth // 2, 6), 30), st.integers(3, 5))) for _ in range(nchunk)]
        while sum(sizes) < 2 * margin + spacing:
            sizes[int(np.argmax(sizes))] += 6
        vol.append(sum(sizes))
        chunks.append(sizes)
        borders.append(list(np.cumsum(sizes)[:-1]))
    n = draw(st.integers(2, 6))
    parts = []
    tries = 0
    while len(parts) < n and tries < 60:
        tries += 1
        pos = []
        cls = draw(st.sampled_from(["interior", "border", "border", "corner"]))
        for a in range(3):
            if a == thin_axis:
                pos.append((vol[a] - 1) / 2)
                continue
            lo, hi = margin, vol[a] - 1 - margin
            if cls in ("border", "corner") and borders[a] and (cls == "corner" or draw(st.booleans())):
                b = draw(st.sampled_from(borders[a]))
                if tshape is not None and tshape[a] % 2 == 0:
                    # even template axis: picks sit on half-integers, b - 0.5 is exactly on the border between two chunks
                    v = b + draw(st.sampled_from([-0.5, -0.5, -0.5, 0.5, -1.5, 0.3]))
                else:
                    v = b + draw(st.sampled_from([-1.5, -0.5, -0.5, 0.0, 0.0, 0.5, 0.3, 1.2]))
            else:
                v = draw(st.floats(lo, max(lo, hi)))
            pos.append(round(float(min(max(v, lo), hi)), 2))
        if all(math.dist(pos, q["pos"]) >= spacing for q in parts):
            parts.append({"pos": pos, "k": draw(st.integers(0, 3)), "cls": cls})
    if len(parts) < 1:
        parts.append({"pos": [vol[0] / 2, vol[1] / 2, vol[2] / 2], "k": 0, "cls": "interior"})
    # on-grid class: the particle centre coincides with a voxel of the response (integer position; half-integer along even
    # template axes), so the pick must be exact, not just within a voxel
    # (quarter-turn candidates: always on the grid - a candidate turned by 90 or 180 degrees matches two of the three or four
    #  blobs of a neighbouring particle and reaches 0.84; only exactly sampled particles (score 0.99) stand clear of that)
    if quarter_turns or draw(st.booleans()):
        for q in parts:
            h = [0.0, 0.0, 0.0] if tshape is None else [((t - 1) / 2) % 1 for t in tshape]
            q["pos"] = [float(round(v - h[a]) + h[a]) for a, v in enumerate(q["pos"])]
            q["grid"] = True
    if pairmode and thin_axis is None:
        p0 = parts[0]
        if picker == "LoG":
            p0["pos"] = [float(round(v)) for v in p0["pos"]]
        p1 = [v + (pair_off[a] if v < (vol[a] - 1) / 2 else -pair_off[a]) for a, v in enumerate(p0["pos"])]
        inside = all(margin <= p1[a] <= vol[a] - 1 - margin for a in range(3))
        if inside and all(math.dist(p1, q["pos"]) >= 0.6 * spacing for q in parts[1:]):
            parts.insert(1, {"pos": p1, "k": p0["k"], "cls": "pair", "amp": 0.85, "grid": bool(p0.get("grid")) or picker == "LoG"})
            p0["cls"] = "pair"
    return {"picker": picker, "scale": scale, "vol": vol, "chunks": chunks, "particles": parts, "sigma_px": sigma_px,
            "tshape": tshape, "blobs": blobs, "rots": rots, "min_dist_px": min_dist, "depth": depth, "psigma": psigma,
            "tmpl_as": draw(st.sampled_from(["array", "array", "provider"])), "warm": draw(st.booleans()), "quarter_turns": quarter_turns,
            "baseline": draw(st.sampled_from([0.0, 0.0, 100.0, 5000.0])),
            "dtype": draw(st.sampled_from(["float32", "float32", "float64", "int16", "uint8"])),
            # (normalised template-matching scores of two identical noise-free particles tie exactly: keep some noise there)
            "noise": draw(st.sampled_from([0.01, 0.03] if (pairmode and picker == "ZNCC") else [0.0, 0.01] if pairmode else [0.0, 0.01, 0.03])), "seed": draw(gen.seeds)}


def judge_many_rotations(d):
    """a searched rotation set with more than 256 members (indices beyond 8 bits): 300 rotations about z in 1.2 degree steps"""
    from acryo.pick import ZNCCTemplateMatcher

    out = []
    K, step = 300, 1.2
    ang = np.radians(np.arange(K) * step)
    rots = Rotation.from_rotvec(np.stack([ang, np.zeros(K), np.zeros(K)], axis=1))
    tshape = (13, 13, 13)
    tmpl = planted.render_template(d["blobs"], tshape)
    vol = (30, 44, 74)
    img = np.zeros(vol, dtype=np.float64)
    sites = [np.array([15.0, 22.0, 20.0]), np.array([14.0, 21.0, 53.0])]
    ks = [k % K for k in d["ks"][:2]]
    for p, k in zip(sites, ks):
        planted.render_at(d["blobs"], vol, p, rots[k], out=img)
    img += 0.01 * gen.noise(d["seed"], vol).astype(np.float64)
    with warnings.catch_warnings():
        warnings.simplefilter("ignore")
        mole = ZNCCTemplateMatcher(tmpl, rotation=rots, order=1).pick_molecules(img.astype(np.float32), 1.0, min_distance=4.0, min_score=0.5)
    pos = mole.pos.astype(np.float64)
    for p, k in zip(sites, ks):
        dist = np.sqrt(((pos - p) ** 2).sum(1)) if len(pos) else np.zeros(0)
        if not len(dist) or dist.min() > 1.0:
            out.append(viol("C20/missed:many-rotations", f"K=300: particle at {p.tolist()} (rotation #{k}) has no pick within 1 px"))
            continue
        j = int(np.argmin(dist))
        ang = math.degrees(planted.angle(Rotation.from_quat(mole.quaternion()[j]), rots[k]))
        if not ang <= 4.0:
            out.append(viol("C20/rotation:many-rotations", f"K=300 rotations about z in {step} degree steps: particle planted with searched rotation #{k} "
                            f"({k * step:.1f} deg) is reported {ang:.1f} deg away"))
    return out


@st.composite
def many_rotation_cases(draw):
    blobs = draw(planted.blob_offsets(5.5, nblob=(3, 4), sigma=(0.9, 1.1), rmin=3.0))
    return {"blobs": blobs, "ks": [draw(st.sampled_from([256, 257, 283, 299, 270])), draw(st.integers(0, 299))], "seed": draw(gen.seeds)}


def border_exact(tier):
    """even template, a particle whose (half-integer) centre lies exactly on a chunk border / on a corner shared by 8 chunks,
    for odd and even lower chunk sizes"""
    blobs = [{"u": [0.0, 0.0, 3.0], "s": 1.0, "a": 1.0}, {"u": [0.0, 2.942, 0.588], "s": 1.0, "a": 0.75}, {"u": [2.683, -0.805, -1.073], "s": 0.9, "a": 0.55}]
    for lower in (21, 22, 23, 24):
        for axes in ((0,), (1,), (2,), (0, 1, 2)):
            chunks = [[lower, 46 - lower] if a in axes else [46] for a in range(3)]
            p0 = [lower - 0.5 if a in axes else 22.5 for a in range(3)]
            parts = [{"pos": p0, "k": 0, "cls": "corner" if len(axes) == 3 else "border", "grid": True}]
            yield {"picker": "ZNCC", "scale": 1.0, "vol": [46, 46, 46], "chunks": chunks, "particles": parts, "sigma_px": 1.1, "tshape": [14, 14, 14],
                   "blobs": blobs, "rots": [], "min_dist_px": 3.0, "depth": 7, "psigma": None, "tmpl_as": "array", "warm": False, "quarter_turns": False,
                   "baseline": 0.0, "dtype": "float32", "noise": 0.01, "seed": 7 + lower}


def nontrivial(d):
    if any(v < d["depth"] for v in d["vol"]) or any(p["cls"] == "pair" for p in d["particles"]):
        return True
    multi = any(len(c) > 1 for c in d["chunks"])
    if not multi:
        return False
    for p in d["particles"]:
        for a in range(3):
            for b in np.cumsum(d["chunks"][a])[:-1]:
                if abs(p["pos"][a] - b) <= d["depth"]:
                    return True
    return False


def labels(d):
    labs = {f"picker:{d['picker']}", f"dtype:{d['dtype']}", "scale:1" if d["scale"] == 1.0 else "scale:other",
            f"nchunks:{int(np.prod([len(c) for c in d['chunks']]))}"}
    labs |= {f"placement:{p['cls']}" for p in d["particles"]}
    if any(p.get("grid") for p in d["particles"]):
        labs.add("on-grid")
    labs.add(f"baseline:{d.get('baseline', 0.0):g}")
    if any(min(c) < d["depth"] for c in d["chunks"]):
        labs.add("chunk<depth")
    if any(v < d["depth"] for v in d["vol"]):
        labs.add("image-axis<depth")
    if d["picker"] == "ZNCC":
        labs.add(f"K:{1 + len(d['rots'])}")
        labs.add("template:cubic" if len(set(d["tshape"])) == 1 else "template:non-cubic")
    return sorted(labs)


def engines():
    return [
        Engine("blob-pickers", judge, strategy=cases(("LoG", "DoG")), nontrivial=nontrivial, labels=labels,
               cases={"quick": 64, "thorough": 1500}, shards={"quick": 8, "thorough": 16}, shrink={"quick": False, "thorough": True}),
        Engine("many-rotations", judge_many_rotations, strategy=many_rotation_cases(), nontrivial=lambda d: any(k % 300 >= 256 for k in d["ks"][:2]),
               labels=lambda d: ["K:300"] + [f"k>=256:{k % 300 >= 256}" for k in d["ks"][:2]],
               cases={"quick": 4, "thorough": 48}, shards={"quick": 4, "thorough": 12}, shrink={"quick": False, "thorough": False}),
        Engine("template-matcher", judge, strategy=cases(("ZNCC",)), enumerate=border_exact, nontrivial=nontrivial, labels=labels,
               cases={"quick": 80, "thorough": 800}, shards={"quick": 16, "thorough": 16}, shrink={"quick": False, "thorough": True}),
    ]
