"""C05 - Alignment stays inside the search range and never fails on a valid range."""
from __future__ import annotations

import itertools
import math
import warnings

import numpy as np
from hypothesis import strategies as st
from scipy.spatial.transform import Rotation

from vlib import gen, planted
from vlib.runner import Engine, viol, HarnessError

PROPERTY = "C05"
RULE = ("Model level: Hypothesis draws a template and a sub-volume class (noise / constant / zeros / unrelated blobs / "
        "huge or tiny amplitudes / displaced copy with the peak exactly on the limit), box 4..16 per side, max_shifts "
        "class (0 / below 0.75 / off the 1/20 grid / integer / on-grid fraction / larger than the box / anisotropic), "
        "model in ZNCC/NCC/PCC/FSC, with or without a rotation set; oracle: no exception, finite shift and score, "
        "|shift_i| <= max_shifts_i + 1e-4. Loader level: scalar / tuple / nm-with-scale max_shifts through align (one template, 4-D stack, list), "
        "align_multi_templates, align_no_template, LoaderGroup.align, LoaderGroup.align_multi_templates on a noise "
        "tomogram; each molecule's displacement expressed in its own input frame must be within max_shifts and the "
        "align-d? features within max_shifts(nm)+0.005. Enumerated: max_shifts normalisation over scalar/sequence "
        "types. Non-trivial = limit off the 0.05 grid, < 0.75 px, 0, or a boundary peak.")
RULE += (" " + 'Also: float64 ndarray limits at loader level and a second call with the same limits object, which must stay unmodified.')
TOLERANCES = {"bound": "1e-4 px (model level), 2e-3 px (loader level, float32 positions)", "features": "max_shifts(nm) + 0.005 (rounded to 2 decimals)"}
ASSUMPTIONS = ["FSC is limited to max_shifts <= 3 px and boxes <= 10 (its landscape is a triple Python loop)",
               "rotation sets contain the identity"]

MODELS = ["ZNCC", "NCC", "PCC", "FSC"]


def get_model(name):
    from acryo import alignment as al
    return {"ZNCC": al.ZNCCAlignment, "NCC": al.NCCAlignment, "PCC": al.PCCAlignment, "FSC": al.FSCAlignment}[name]


def simple_blobs(shape, seed, k=3):
    rng = np.random.Generator(np.random.Philox(seed))
    c = (np.asarray(shape) - 1) / 2
    out = []
    for i in range(k):
        u = rng.uniform(-0.3, 0.3, 3) * np.asarray(shape)
        out.append({"u": u.round(3).tolist(), "s": float(rng.uniform(0.8, 1.5)), "a": [1.0, 0.7, 0.5][i % 3]})
    return out


def make_images(d):
    shape = tuple(d["shape"])
    tb = simple_blobs(shape, d["tseed"])
    if d["tmpl"] == "blobs":
        tmpl = planted.render_template(tb, shape)
    elif d["tmpl"] == "noise":
        tmpl = gen.smooth_noise(d["tseed"], shape, sigma=0.7)
    else:
        tmpl = np.full(shape, 2.0, dtype=np.float32)
    cls = d["sub"]
    if cls == "noise":
        sub = gen.noise(d["sseed"], shape)
    elif cls == "constant":
        sub = np.full(shape, 3.5, dtype=np.float32)
    elif cls == "zeros":
        sub = np.zeros(shape, dtype=np.float32)
    elif cls == "unrelated":
        sub = planted.render_template(simple_blobs(shape, d["sseed"] + 17), shape)
    elif cls == "huge":
        sub = gen.noise(d["sseed"], shape) * 1e6
    elif cls == "tiny":
        sub = gen.noise(d["sseed"], shape) * 1e-6
    elif cls == "boundary-copy":
        disp = [m * s for m, s in zip(d["max_shifts"], d["bsign"])]
        sub = planted.render_at(tb if d["tmpl"] == "blobs" else simple_blobs(shape, d["tseed"]), shape,
                                (np.asarray(shape) - 1) / 2 + np.asarray(disp), Rotation.identity())
    else:
        raise HarnessError(cls)
    return tmpl, sub.astype(np.float32)


def judge_model(d):
    out = []
    tmpl, sub = make_images(d)
    Model = get_model(d["model"])
    kw = {}
    if d["rots"]:
        kw["rotations"] = Rotation.from_rotvec(np.array([[0.0, 0.0, 0.0]] + d["rots"]))
    if d["cutoff"] is not None:
        kw["cutoff"] = d["cutoff"]
    ms = d["max_shifts"]
    arg = tuple(ms)
    tag = f"{d['model']} shape={tuple(d['shape'])} template={d['tmpl']} sub-volume={d['sub']} max_shifts={arg} K={1 + len(d['rots'])}"
    with warnings.catch_warnings():
        warnings.simplefilter("ignore")
        try:
            res = Model(tmpl, **kw).align(sub, arg)
        except Exception as e:  # noqa: BLE001
            import traceback
            tb = traceback.extract_tb(e.__traceback__)
            where = [f"{f.filename.split('/')[-1]}:{f.name}" for f in tb if "/acryo/" in f.filename]
            out.append(viol(f"C05/raises:{d['model']}:{type(e).__name__}", f"{tag}: {type(e).__name__}: {e} at {where[-1] if where else '?'}"))
            return out
    shift = np.asarray(res.shift, dtype=np.float64)
    if shift.shape != (3,) or not np.all(np.isfinite(shift)):
        out.append(viol(f"C05/shift-not-finite:{d['model']}", f"{tag}: shift={res.shift}"))
        return out
    exc = np.abs(shift) - np.asarray(ms)
    if not np.all(exc <= 1e-4):
        out.append(viol(f"C05/out-of-range:{d['model']}", f"{tag}: shift={np.round(shift, 4).tolist()} exceeds the limit by {exc.max():.4f} px",
                        excess=float(exc.max())))
    sc = float(res.score)
    if not np.isfinite(sc):
        out.append(viol(f"C05/score-not-finite:{d['model']}", f"{tag}: score={res.score}"))
    return out


def judge_loader(d):
    from acryo import SubtomogramLoader, Molecules
    import polars as pl

    out = []
    scale = d["scale"]
    shape = tuple(d["shape"])
    n = d["n"]
    S = max(shape) + 14
    tomo = gen.smooth_noise(d["seed"], (S, S, S * n), sigma=0.8)
    pos_px = np.array([[S / 2 + o[0], S / 2 + o[1], i * S + S / 2 + o[2]] for i, o in enumerate(d["offs"][:n])])
    R = Rotation.from_rotvec(np.array([r["rv"] for r in d["rots_m"][:n]]))
    mole = Molecules(pos_px * scale, R, features=pl.DataFrame({"uid": list(range(n)), "g": [i % 2 for i in range(n)]}))
    loader = SubtomogramLoader(tomo, mole, order=d["order"], scale=scale, output_shape=shape)
    Model = get_model(d["model"])
    ms_px = d["max_shifts"]
    if d["ms_form"] == "scalar":
        ms = ms_px[0] * scale
        lim = np.array([ms_px[0]] * 3)
    elif d["ms_form"] == "int-scalar":
        ms = int(math.ceil(ms_px[0] * scale))
        lim = np.array([ms / scale] * 3)
    elif d["ms_form"] == "np-scalar":
        ms = np.float32(ms_px[0] * scale)
        lim = np.array([float(ms) / scale] * 3)
    elif d["ms_form"] == "list":
        ms = [m * scale for m in ms_px]
        lim = np.array(ms_px)
    elif d["ms_form"] == "ndarray":
        ms = np.array([m * scale for m in ms_px], dtype=np.float64)
        lim = np.array(ms_px)
    else:
        ms = tuple(m * scale for m in ms_px)
        lim = np.array(ms_px)
    tmpls = [planted.render_template(simple_blobs(shape, d["seed"] + 5 + i), shape) for i in range(2)]
    kw = {}
    if d["rots"]:
        kw["rotations"] = Rotation.from_rotvec(np.array([[0.0, 0.0, 0.0]] + d["rots"]))
    route = d["route"]
    tag = f"{d['model']} route={route} max_shifts={ms!r} ({type(ms).__name__}) scale={scale} shape={shape} K={1 + len(d['rots'])}"
    ms_before = np.array(ms, dtype=np.float64, copy=True)
    with warnings.catch_warnings():
        warnings.simplefilter("ignore")
        try:
            if d.get("twice"):
                # the caller reuses its max_shifts object for a second round (iterative refinement): same limits again
                loader.align(tmpls[0], max_shifts=ms, alignment_model=Model, **kw)
            if route == "align":
                res = loader.align(tmpls[0], max_shifts=ms, alignment_model=Model, **kw).molecules
            elif route == "align-stack":
                res = loader.align(np.stack(tmpls, axis=0), max_shifts=ms, alignment_model=Model, **kw).molecules
            elif route == "align-list":
                res = loader.align(list(tmpls), max_shifts=ms, alignment_model=Model, **kw).molecules
            elif route == "multi":
                res = loader.align_multi_templates(tmpls, max_shifts=ms, alignment_model=Model, **kw).molecules
            elif route == "notemplate":
                res = loader.align_no_template(max_shifts=ms, alignment_model=Model, **kw).molecules
            elif route == "group":
                res = Molecules.concat([l.molecules for _, l in loader.groupby("g").align(tmpls[0], max_shifts=ms, alignment_model=Model, **kw)])
            elif route == "group-multi":
                res = Molecules.concat([l.molecules for _, l in loader.groupby("g").align_multi_templates(tmpls, max_shifts=ms, alignment_model=Model, **kw)])
            else:
                raise HarnessError(route)
        except HarnessError:
            raise
        except Exception as e:  # noqa: BLE001
            import traceback
            tb = traceback.extract_tb(e.__traceback__)
            if not any("/acryo/" in f.filename for f in tb):
                raise
            where = [f"{f.filename.split('/')[-1]}:{f.name}" for f in tb if "/acryo/" in f.filename]
            out.append(viol(f"C05/loader-raises:{route}:{type(e).__name__}", f"{tag}: {type(e).__name__}: {e} at {where[-1]}"))
            return out
    if not np.array_equal(np.array(ms, dtype=np.float64), ms_before):
        out.append(viol("C05/max-shifts-argument-modified", f"{tag}: the caller's max_shifts object was changed to {np.array(ms).tolist()}"))
    if len(res) != n:
        out.append(viol("C05/loader-length", f"{tag}: {len(res)} molecules"))
        return out
    uid = res.features["uid"].to_list()
    for row, i in enumerate(uid):
        disp = R[i].inv().apply((res.pos[row].astype(np.float64) - mole.pos[i].astype(np.float64)) / scale)
        if not np.all(np.isfinite(disp)):
            out.append(viol("C05/loader-non-finite", f"{tag}: molecule {i} position {res.pos[row]}"))
            continue
        exc = np.abs(disp) - lim
        if not np.all(exc <= 2e-3 + 1e-6 * np.abs(pos_px[i]).max()):
            out.append(viol(f"C05/loader-out-of-range:{route}", f"{tag}: molecule {i} moved by {np.round(disp, 4).tolist()} px along its own axes, "
                            f"limit {np.round(lim, 4).tolist()}", excess=float(exc.max())))
        f = res.features
        feat = np.array([f["align-dz"][row], f["align-dy"][row], f["align-dx"][row]], dtype=np.float64)
        if not np.all(np.abs(feat) <= lim * scale + 0.005 + 1e-6):
            out.append(viol("C05/loader-feature-out-of-range", f"{tag}: molecule {i} align-d? = {feat.tolist()} nm, limit {np.round(lim * scale, 4).tolist()}"))
        sc = float(f["score"][row])
        if not np.isfinite(sc):
            out.append(viol("C05/loader-score-not-finite", f"{tag}: molecule {i} score {sc}"))
    return out


def judge_normalize(d):
    """max_shifts normalisation: every accepted spelling must give the same 3-tuple of floats."""
    from acryo.loader._base import _normalize_max_shifts

    out = []
    v = d["value"]
    kind = d["kind"]
    builders = {
        "int": lambda: int(v[0]), "float": lambda: float(v[0]), "np.float32": lambda: np.float32(v[0]),
        "np.float64": lambda: np.float64(v[0]), "np.int64": lambda: np.int64(int(v[0])),
        "0-d array": lambda: np.array(float(v[0])),
        "list": lambda: [float(x) for x in v], "tuple": lambda: tuple(float(x) for x in v),
        "ndarray": lambda: np.array(v, dtype=np.float64), "ndarray32": lambda: np.array(v, dtype=np.float32),
        "int-tuple": lambda: tuple(int(x) for x in v),
    }
    x = builders[kind]()
    scalar = kind in ("int", "float", "np.float32", "np.float64", "np.int64", "0-d array")
    if kind in ("int", "np.int64"):
        want = (float(int(v[0])),) * 3
    elif scalar:
        want = (float(np.float32(v[0])) if kind == "np.float32" else float(v[0]),) * 3
    elif kind == "int-tuple":
        want = tuple(float(int(t)) for t in v)
    elif kind == "ndarray32":
        want = tuple(float(np.float32(t)) for t in v)
    else:
        want = tuple(float(t) for t in v)
    try:
        got = _normalize_max_shifts(x)
    except Exception as e:  # noqa: BLE001
        out.append(viol(f"C05/normalize-raises:{kind}", f"_normalize_max_shifts({x!r}) raised {type(e).__name__}: {e}"))
        return out
    if not (isinstance(got, tuple) and len(got) == 3 and all(isinstance(g, float) for g in got) and np.allclose(got, want, rtol=1e-6)):
        out.append(viol(f"C05/normalize-wrong:{kind}", f"_normalize_max_shifts({x!r}) = {got!r}, expected {want!r}"))
    return out


@st.composite
def max_shift_value(draw, n, cap=None):
    cls = draw(st.sampled_from(["zero", "small", "offgrid", "int", "ongrid", "big"]))
    if cls == "zero":
        v = 0.0
    elif cls == "small":
        v = round(draw(st.floats(0.01, 0.74)), 3)
    elif cls == "offgrid":
        v = draw(st.sampled_from([0.33, 1.27, 2.513, 0.77, 1.999, 3.141, 0.051]))
    elif cls == "int":
        v = float(draw(st.integers(1, 4)))
    elif cls == "ongrid":
        v = draw(st.integers(1, 70)) * 0.05
    else:
        v = round(draw(st.floats(n * 0.6, n * 1.9)), 2)
    if cap is not None:
        v = min(v, cap)
    return cls, float(v)


@st.composite
def model_cases(draw, models=("ZNCC", "NCC", "PCC")):
    model = draw(st.sampled_from(list(models)))
    fsc = model == "FSC"
    shape = draw(gen.box_shapes(4, 10 if fsc else 16))
    aniso = draw(st.booleans())
    classes, ms = [], []
    c0, v0 = draw(max_shift_value(min(shape), cap=3.0 if fsc else None))
    for a in range(3):
        if aniso:
            c, v = draw(max_shift_value(shape[a], cap=3.0 if fsc else None))
        else:
            c, v = c0, v0
        classes.append(c)
        ms.append(v)
    sub = draw(st.sampled_from(["noise", "noise", "constant", "zeros", "unrelated", "huge", "tiny", "boundary-copy"]))
    nrot = draw(st.sampled_from([0, 0, 1, 2]))
    rots = [r for r in planted.rotation_set(draw, kmax=nrot + 1)[1:]] if nrot else []
    return {"model": model, "shape": shape, "max_shifts": ms, "mclasses": classes, "sub": sub,
            "tmpl": draw(st.sampled_from(["blobs", "blobs", "noise", "constant"])),
            "tseed": draw(gen.seeds), "sseed": draw(gen.seeds), "rots": rots,
            "bsign": [draw(st.sampled_from([-1.0, 1.0, 0.0])) for _ in range(3)],
            "cutoff": draw(st.sampled_from([None, None, 0.4]))}


@st.composite
def loader_cases(draw):
    model = draw(st.sampled_from(["ZNCC", "NCC", "PCC", "FSC"]))
    fsc = model == "FSC"
    shape = draw(gen.box_shapes(6, 10 if fsc else 12))
    form = draw(st.sampled_from(["scalar", "scalar", "tuple", "list", "int-scalar", "np-scalar", "ndarray", "ndarray"]))
    c0, v0 = draw(max_shift_value(min(shape), cap=2.5 if fsc else 6.0))
    if form in ("tuple", "list", "ndarray") and draw(st.booleans()):
        ms = [draw(max_shift_value(s, cap=2.5 if fsc else 6.0))[1] for s in shape]
    else:
        ms = [v0] * 3
    n = draw(st.integers(2, 4))
    nrot = draw(st.sampled_from([0, 0, 1, 2]))
    rots = [r for r in planted.rotation_set(draw, kmax=nrot + 1)[1:]] if nrot else []
    return {"model": model, "shape": shape, "max_shifts": ms, "ms_form": form, "mclasses": [c0], "scale": draw(gen.scales),
            "order": draw(st.sampled_from([1, 3])), "n": n, "seed": draw(gen.seeds),
            "offs": [[round(draw(st.floats(-0.5, 0.5)), 3) for _ in range(3)] for _ in range(4)],
            "rots_m": [draw(gen.rotvecs()) for _ in range(4)], "rots": rots,
            "route": draw(st.sampled_from(["align", "align-stack", "align-list", "multi", "notemplate", "group", "group-multi"])),
            "twice": draw(st.booleans())}


def normalize_grid(tier):
    vals = [[0.0, 0.0, 0.0], [1.0, 1.0, 1.0], [0.33, 0.33, 0.33], [2.0, 1.5, 0.7], [3, 2, 1], [0.05, 10.0, 2.513]]
    for v in vals:
        for kind in ("int", "float", "np.float32", "np.float64", "np.int64", "list", "tuple", "ndarray", "ndarray32", "int-tuple"):
            yield {"value": v, "kind": kind}


def nontrivial(d):
    return any(c in ("zero", "small", "offgrid") for c in d["mclasses"]) or d.get("sub") == "boundary-copy"


def labels_model(d):
    return gen.parity_class(d["shape"]) + [f"model:{d['model']}", f"sub:{d['sub']}", f"tmpl:{d['tmpl']}", f"K:{1 + len(d['rots'])}"] + \
        sorted({f"max_shifts:{c}" for c in d["mclasses"]})


def labels_loader(d):
    return [f"model:{d['model']}", f"route:{d['route']}", f"form:{d['ms_form']}", f"K:{1 + len(d['rots'])}",
            "scale:1" if d["scale"] == 1.0 else "scale:other"] + sorted({f"max_shifts:{c}" for c in d["mclasses"]})


def engines():
    return [
        Engine("model", judge_model, strategy=model_cases(("ZNCC", "NCC", "PCC")), nontrivial=nontrivial, labels=labels_model,
               cases={"quick": 500, "thorough": 20000}, shards={"quick": 8, "thorough": 16}),
        Engine("model-fsc", judge_model, strategy=model_cases(("FSC",)), nontrivial=nontrivial, labels=labels_model,
               cases={"quick": 80, "thorough": 2000}, shards={"quick": 8, "thorough": 16}),
        Engine("loader", judge_loader, strategy=loader_cases(), nontrivial=nontrivial, labels=labels_loader,
               cases={"quick": 120, "thorough": 2500}, shards={"quick": 8, "thorough": 16},
               shrink={"quick": False, "thorough": True}),
        Engine("normalize", judge_normalize, enumerate=normalize_grid, labels=lambda d: [f"kind:{d['kind']}"]),
    ]
