"""C17 - Fourier shell correlation is the normalised cross-spectrum per shell."""
from __future__ import annotations

import warnings

import numpy as np
from hypothesis import strategies as st

from vlib import gen, ref
from vlib.runner import Engine, viol, HarnessError

PROPERTY = "C17"
RULE = ("Engine 'function': Hypothesis draws an image pair (correlated / identical / negated / scaled / unrelated) of any "
        "3-D shape 2..14 (parity classes) and a shell width dfreq >= 1/min(shape); fourier_shell_correlation is compared "
        "shell by shell with a float64 reference (label floor(|f|/dfreq), Re sum F1 conj F2 / sqrt(sum|F1|^2 sum|F2|^2)); "
        "range, symmetry, positive rescaling, identical = 1 on non-empty shells, NaN only on empty shells, frequencies "
        "(i+0.5)*dfreq. Shells touched by a bin within 1e-7 of a shell boundary are skipped and counted. Engine "
        "'loader': loader.fsc / fsc_with_average / fsc_with_halfmaps / LoaderGroup.fsc with masks (none, array, "
        "provider, converter), seeds and n_set; the table must equal the reference applied to the returned half-maps "
        "times the mask after the documented mean subtraction, be reproducible for a seed, and have columns freq, "
        "FSC-0.. . Non-trivial = non-cubic or odd shape, or a masked loader-level case.")
TOLERANCES = {"shell value": "2e-4 (float32 FFT)", "range": "1e-4"}
ASSUMPTIONS = ["shells whose RMS amplitude is below 2e-3 of the largest Fourier coefficient are skipped (single-precision noise floor)",
               "shell membership of bins lying within 1e-7 (relative) of a shell boundary is not asserted"]
RULE += (" " + "Also: LoaderGroup.fsc with a mask given as an ImageConverter (made from each group's average).")


def make_pair(d):
    shape = tuple(d["shape"])
    a = gen.smooth_noise(d["seed"], shape, sigma=d["sigma"])
    k = d["pair"]
    if k == "identical":
        b = a.copy()
    elif k == "negated":
        b = -a
    elif k == "scaled":
        b = a * 7.5
    elif k == "unrelated":
        b = gen.smooth_noise(d["seed"] + 11, shape, sigma=d["sigma"])
    else:
        b = a + d["noise"] * gen.noise(d["seed"] + 3, shape)
    return a.astype(np.float32), b.astype(np.float32)


def compare_fsc(tag, freq, fsc, a, b, dfreq, out, tol=2e-4):
    rf, rv, cnt, q = ref.fsc_reference(a, b, dfreq)
    fsc = np.asarray(fsc, dtype=np.float64)
    freq = np.asarray(freq, dtype=np.float64)
    if len(fsc) != len(rv) or len(freq) != len(rv):
        out.append(viol("C17/shell-count", f"{tag}: {len(fsc)} shells returned, expected {len(rv)} (dfreq={dfreq}, shape={a.shape})"))
        return False
    if not np.allclose(freq, rf, rtol=1e-5, atol=1e-7):
        out.append(viol("C17/frequencies", f"{tag}: frequencies {freq[:4].tolist()}.. != (i+0.5)*dfreq"))
    # shells touched by boundary ties
    frac = np.abs(q - np.round(q))
    tie_bins = frac < 1e-7
    tie_shell = np.zeros(len(rv) + 2, dtype=bool)
    for v in np.round(q[tie_bins]).astype(int).ravel():
        for s in (v - 1, v):
            if 0 <= s < len(tie_shell):
                tie_shell[s] = True
    # float32 FFT noise floor: shells whose RMS amplitude is below 2e-3 of the largest coefficient of either
    # image carry no significant digits in single precision - skipped (and the reference uses float64)
    lab = np.floor(q).astype(int)
    weak = np.zeros(len(rv), dtype=bool)
    for img in (a, b):
        F = np.abs(np.fft.fftn(np.asarray(img, dtype=np.float64)))
        top = float(F.max()) + 1e-300
        for i in range(len(rv)):
            mm = lab == i
            if mm.any() and float(np.sqrt((F[mm] ** 2).mean())) < 2e-3 * top:
                weak[i] = True
    ok = True
    compare_fsc.skip = weak | tie_shell[:len(rv)]
    for i in range(len(rv)):
        if tie_shell[i] or weak[i]:
            continue
        if np.isnan(rv[i]):
            if not np.isnan(fsc[i]):
                # an empty shell (no bins) cannot have a value
                if cnt[i] == 0:
                    out.append(viol("C17/empty-shell-has-value", f"{tag}: shell {i} has no bins but FSC={fsc[i]}"))
                    ok = False
            continue
        if np.isnan(fsc[i]) or not abs(fsc[i] - rv[i]) <= tol:
            out.append(viol("C17/shell-value", f"{tag}: shell {i}: FSC {fsc[i]:.6f}, reference {rv[i]:.6f} ({cnt[i]} bins, dfreq={dfreq}, shape={a.shape})",
                            err=float(abs(fsc[i] - rv[i])) if not np.isnan(fsc[i]) else 9.0))
            ok = False
            break
        if not (-1 - 1e-4 <= fsc[i] <= 1 + 1e-4):
            out.append(viol("C17/range", f"{tag}: shell {i}: FSC {fsc[i]}"))
    return ok


def judge_function(d):
    from acryo._utils import fourier_shell_correlation

    out = []
    a, b = make_pair(d)
    dfreq = d["dfreq"]
    tag = f"shape={a.shape} pair={d['pair']} dfreq={dfreq}"
    with warnings.catch_warnings():
        warnings.simplefilter("ignore")
        freq, fsc = fourier_shell_correlation(a, b, dfreq)
        if not compare_fsc(tag, freq, fsc, a, b, dfreq, out):
            return out
        keep = ~compare_fsc.skip
        fsc = np.asarray(fsc, dtype=np.float64)[keep]
        f2, fsc2 = fourier_shell_correlation(b, a, dfreq)
        fsc2 = np.asarray(fsc2, dtype=np.float64)[keep]
        if not np.allclose(fsc, fsc2, atol=2e-5, equal_nan=True):
            out.append(viol("C17/asymmetric", f"{tag}: fsc(a,b) != fsc(b,a) (max diff {np.nanmax(np.abs(np.asarray(fsc) - np.asarray(fsc2))):.3g})"))
        f3, fsc3 = fourier_shell_correlation((a * d["alpha"]).astype(np.float32), (b * d["beta"]).astype(np.float32), dfreq)
        fsc3 = np.asarray(fsc3, dtype=np.float64)[keep]
        if not np.allclose(fsc, fsc3, atol=2e-4, equal_nan=True):
            out.append(viol("C17/rescaling", f"{tag}: fsc changes under positive rescaling ({d['alpha']}, {d['beta']})"))
        f4, fsc4 = fourier_shell_correlation(a, a, dfreq)
        _, rv, cnt, _ = ref.fsc_reference(a, a, dfreq)
        fsc4 = np.asarray(fsc4, dtype=np.float64)
        if len(fsc4) == len(rv):
            bad = [i for i in range(len(rv)) if not np.isnan(rv[i]) and not abs(fsc4[i] - 1) <= 1e-4]
            if bad:
                out.append(viol("C17/self-not-1", f"{tag}: fsc(a,a) = {fsc4[bad[0]]} on non-empty shell {bad[0]}"))
    return out


def judge_loader(d):
    from acryo import SubtomogramLoader, Molecules, pipe
    from scipy.spatial.transform import Rotation
    import polars as pl

    out = []
    shape = tuple(d["shape"])
    n = d["n"]
    S = max(shape) + 8
    tomo = gen.smooth_noise(d["seed"], (S, S, S * n), sigma=0.8)
    sig = gen.smooth_noise(d["seed"] + 1, (S, S, S), sigma=1.2) * 2.0
    for i in range(n):
        tomo[:, :, i * S:(i + 1) * S] += sig  # common signal so that the FSC is not pure noise
    pos = np.array([[S / 2, S / 2, i * S + S / 2] for i in range(n)], dtype=np.float64)
    scale = d["scale"]
    mole = Molecules(pos * scale, features=pl.DataFrame({"g": [i % 2 for i in range(n)]}))
    loader = SubtomogramLoader(tomo, mole, order=1, scale=scale, output_shape=shape)
    grids = np.meshgrid(*[(np.arange(m) - (m - 1) / 2) / ((m - 1) / 2 + 0.5) for m in shape], indexing="ij")
    marr = (np.sqrt(sum(g ** 2 for g in grids)) <= 0.9).astype(np.float32)
    mk = d["mask"]
    if mk == "none":
        mask = None
    elif mk == "array":
        mask = marr
    elif mk == "provider":
        mask = pipe.from_array(marr, scale)
    elif mk == "converter":
        mask = pipe.soft_otsu(sigma=1.0 * scale, radius=1.0 * scale)
    else:
        raise HarnessError(mk)
    n_set, seed, dfreq = d["n_set"], d["split_seed"], d["dfreq"]
    tag = f"route={d['route']} n={n} shape={shape} mask={mk} n_set={n_set} dfreq={dfreq}"
    with warnings.catch_warnings():
        warnings.simplefilter("ignore")
        if d["route"] == "group":
            gm = marr if mk in ("array", "provider") else None
            garg = mask if mk in ("provider", "converter") else gm
            res = loader.groupby("g").fsc(mask=garg, seed=seed, n_set=n_set, dfreq=dfreq or 0.05)
            res2 = loader.groupby("g").fsc(mask=garg, seed=seed, n_set=n_set, dfreq=dfreq or 0.05)
            halves = loader.groupby("g").average_split(n_set=n_set, seed=seed, squeeze=False)
            for key, df in res.items():
                if not df.equals(res2[key]):
                    out.append(viol("C17/group-not-reproducible", f"{tag}: group {key}: same seed, different table"))
                if df.columns != ["freq"] + [f"FSC-{i}" for i in range(n_set)]:
                    out.append(viol("C17/columns", f"{tag}: columns {df.columns}"))
                    continue
                h = halves[key]
                mm = 1.0 if gm is None else gm
                if mk == "converter":
                    # a mask made from the data: the converter applied to the average of the group's two half maps
                    # (as the loader-level fsc does); whatever it is made from, it must not be silently dropped
                    mm = np.asarray(mask.convert((h[0, 0] + h[0, 1]) / 2, scale))
                    if not (0.0 < float(mm.mean()) < 1.0):
                        continue  # degenerate mask: indistinguishable from no mask
                for s in range(n_set):
                    compare_fsc(f"{tag} group {key} set {s}", df["freq"].to_numpy(), df[f"FSC-{s}"].to_numpy(),
                                h[s, 0] * mm, h[s, 1] * mm, dfreq or 0.05, out)
            return out
        fh = loader.fsc_with_halfmaps(mask=mask, seed=seed, n_set=n_set, dfreq=dfreq, squeeze=False)
        fh2 = loader.fsc_with_halfmaps(mask=mask, seed=seed, n_set=n_set, dfreq=dfreq, squeeze=False)
        df = fh.fsc
        if not df.equals(fh2.fsc):
            out.append(viol("C17/not-reproducible", f"{tag}: same seed, different FSC table"))
        if df.columns != ["freq"] + [f"FSC-{i}" for i in range(n_set)]:
            out.append(viol("C17/columns", f"{tag}: columns {df.columns}"))
            return out
        dfq = dfreq if dfreq is not None else 1.5 / min(shape)
        m = fh.mask
        h0, h1 = fh.halfmaps
        for s in range(n_set):
            compare_fsc(f"{tag} set {s}", df["freq"].to_numpy(), df[f"FSC-{s}"].to_numpy(), h0[s] * m, h1[s] * m, dfq, out)
        # the half-maps are the split averages after the documented (global) mean subtraction
        raw = loader.average_split(n_set=n_set, seed=seed, squeeze=False)
        want = raw - raw.mean()
        got = np.stack([h0, h1], axis=1)
        if got.shape != want.shape or not np.allclose(got, want, atol=1e-4 * (np.abs(want).max() + 1e-9)):
            out.append(viol("C17/halfmaps", f"{tag}: returned half-maps != average_split(seed) - mean"))
        if d["route"] == "fsc" and dfreq is not None:
            t2 = loader.fsc(mask=mask, seed=seed, n_set=n_set, dfreq=dfreq)
            if not t2.equals(df):
                out.append(viol("C17/fsc-vs-halfmaps", f"{tag}: loader.fsc != fsc_with_halfmaps table"))
        if d["route"] == "average":
            t3, avg = loader.fsc_with_average(mask=mask, seed=seed, n_set=n_set, dfreq=dfreq)
            if not t3.equals(df):
                out.append(viol("C17/fsc-with-average-table", f"{tag}: fsc_with_average table differs"))
            if not np.allclose(avg, (h0[0] + h1[0]) / 2, atol=1e-5):
                out.append(viol("C17/fsc-with-average-image", f"{tag}: returned average != mean of the two half-maps"))
    return out


@st.composite
def function_cases(draw):
    shape = draw(gen.box_shapes(2, 14))
    lo = 1.0 / min(shape)
    dfreq = draw(st.one_of(st.sampled_from([0.05, 0.02, 0.1, 0.25]), st.floats(lo, 0.5).map(lambda v: round(v, 4))))
    dfreq = max(dfreq, round(lo + 1e-4, 4))
    return {"shape": shape, "seed": draw(gen.seeds), "sigma": draw(st.sampled_from([0.4, 0.8, 1.2])),
            "pair": draw(st.sampled_from(["correlated", "correlated", "identical", "negated", "scaled", "unrelated"])),
            "noise": draw(st.sampled_from([0.1, 0.5, 2.0])), "dfreq": float(dfreq),
            "alpha": draw(st.sampled_from([0.01, 0.5, 3.0, 200.0])), "beta": draw(st.sampled_from([0.02, 1.0, 40.0]))}


@st.composite
def loader_cases(draw):
    shape = draw(gen.box_shapes(5, 10))
    route = draw(st.sampled_from(["fsc", "halfmaps", "average", "group"]))
    n = draw(st.integers(4, 8))
    return {"shape": shape, "n": n, "seed": draw(gen.seeds), "scale": draw(st.sampled_from([1.0, 0.5, 1.37])),
            "mask": draw(st.sampled_from(["none", "array", "provider", "converter"])), "route": route,
            "n_set": draw(st.integers(1, 3)), "split_seed": draw(st.integers(0, 9999)),
            "dfreq": draw(st.sampled_from([None, 0.05, 0.125, 0.2])) if route != "group" else draw(st.sampled_from([0.05, 0.125, 0.2]))}


def nontrivial(d):
    s = d["shape"]
    return any(m % 2 for m in s) or len(set(s)) > 1 or d.get("mask", "none") != "none"


def engines():
    return [
        Engine("function", judge_function, strategy=function_cases(), nontrivial=nontrivial,
               labels=lambda d: gen.parity_class(d["shape"]) + [f"pair:{d['pair']}"],
               cases={"quick": 400, "thorough": 12000}, shards={"quick": 8, "thorough": 16}),
        Engine("loader", judge_loader, strategy=loader_cases(), nontrivial=nontrivial,
               labels=lambda d: [f"route:{d['route']}", f"mask:{d['mask']}", f"n_set:{d['n_set']}"],
               cases={"quick": 60, "thorough": 1500}, shards={"quick": 6, "thorough": 16},
               shrink={"quick": False, "thorough": True}),
    ]
