"""C04 - Translational alignment returns the true displacement."""
from __future__ import annotations

import math
import warnings

import numpy as np
from hypothesis import strategies as st
from scipy import ndimage as ndi
from scipy.spatial.transform import Rotation

from vlib import gen, ref
from vlib.runner import Engine, viol

PROPERTY = "C04"
RULE = ("Hypothesis draws (model in ZNCC/NCC/PCC/FSC; template class A = analytic Gaussian blobs displaced "
        "analytically, B = windowed broadband texture displaced by a Fourier phase ramp; box 8..20 per side with "
        "parity classes; max_shifts integer or fractional, scalar-like or anisotropic; displacement class zero / "
        "interior fractional / integer / on the boundary |d_i| = max_i / within 0.75 px of the boundary; mask none / "
        "binary / soft; cutoff; tilt none / tuple / model object with a drawn molecule quaternion; align or fit). "
        "Oracle: |shift - d| <= 0.1 px (ZNCC/NCC/PCC unmasked) or 0.5 px (FSC, or any mask), identity quaternion, "
        "shifting the sub-volume by -shift superimposes it on the template (corr >= 0.98), score >= 0.9 for "
        "ZNCC/NCC unmasked. Non-trivial = fractional or boundary displacement with |d| >= 0.3 px.")
RULE += (" " + "Also: engine 'wide-range' (search ranges from half the box to beyond it), intensity gains 1e-4..100 on both images, grey offsets up to 300 for the real-space models, and with a tilt model the same model object is asked again after an alignment at another orientation (identical answer required).")
TOLERANCES = {"ZNCC/NCC/PCC unmasked": "0.1 px (stated by the property)", "FSC or masked": "0.5 px (stated)",
              "superposition": "corrcoef >= 0.98", "score": ">= 0.9 (ZNCC/NCC, unmasked)"}
ASSUMPTIONS = ["templates are non-degenerate: >= 3 blobs with distinct amplitudes / windowed broadband noise; for FSC only broadband templates (power in every shell)",
               "masks contain every displaced blob out to 2 sigma (they may cut the tails of the displaced copy, never its core)",
               "class A density stays >= 3 sigma + |d| away from the faces, so the displaced copy is not truncated",
               "FSC is capped at max_shifts <= 2 (its landscape is a triple Python loop)"]

MODELS = ["ZNCC", "NCC", "PCC", "FSC"]


def get_model(name):
    from acryo import alignment as al
    return {"ZNCC": al.ZNCCAlignment, "NCC": al.NCCAlignment, "PCC": al.PCCAlignment, "FSC": al.FSCAlignment}[name]


def make_pair(d):
    shape = tuple(d["shape"])
    disp = np.asarray(d["d"], dtype=np.float64)
    if d["tclass"] == "A":
        tmpl = gen.render_blobs(d["blobs"], shape)
        img = gen.render_blobs(d["blobs"], shape, center_shift=disp)
    else:
        base = gen.broadband(d["seed"], shape, sigma=d["bsigma"], window=0.3)
        tmpl = base.astype(np.float32)
        img = gen.fourier_shift(base, disp).astype(np.float32)
    bg = float(d.get("bg", 0.0))
    if bg:
        # a uniform grey background under both the template and its displaced copy
        tmpl = (tmpl + bg).astype(np.float32)
        img = (img + bg).astype(np.float32)
    g = float(d.get("gain", 1.0))
    if g != 1.0:
        # the same physical pair in other intensity units (e.g. electron counts vs normalised densities)
        tmpl = (tmpl * g).astype(np.float32)
        img = (img * g).astype(np.float32)
    return tmpl, img


def make_mask(d):
    """Spherical mask (binary or soft) that contains every displaced blob out to 2 sigma: it may cut the
    tails of the displaced copy (the case the property allows 0.5 px for) but never its core."""
    shape = tuple(d["shape"])
    if d["mask"] == "none":
        return None
    ctr = [(n - 1) / 2 for n in shape]
    grids = np.meshgrid(*[np.arange(n) - c for n, c in zip(shape, ctr)], indexing="ij")
    r = np.sqrt(sum(g ** 2 for g in grids))
    if d["tclass"] == "A":
        need = max(math.sqrt(sum((c - c0) ** 2 for c, c0 in zip(b["c"], ctr))) + 2.0 * b["s"] for b in d["blobs"])
    else:
        need = 0.45 * max(shape)
    radius = need + max(d["max_shifts"]) + d["mask_r"]
    if d["tclass"] == "A":
        # ... also for a diagonal displacement (|d| up to sqrt(3) max_shifts): the displaced copy itself, out to 2 sigma
        disp = d["d"]
        radius = max(radius, max(math.sqrt(sum((c + dd - c0) ** 2 for c, dd, c0 in zip(b["c"], disp, ctr))) + 2.0 * b["s"]
                                 for b in d["blobs"]) + d["mask_r"])
    if d["mask"] == "binary":
        return (r <= radius).astype(np.float32)
    soft = 1.0 / (1.0 + np.exp((r - radius) / 0.6))
    return soft.astype(np.float32)


def make_tilt(d):
    from acryo.tilt import single_axis
    t = d["tilt"]
    if t is None:
        return None
    if d["tilt_as"] == "model":
        return single_axis(tuple(t["range"]), t["axis"])
    return tuple(t["range"])


def tolerance(d):
    if d["model"] == "FSC" or d["mask"] != "none":
        return 0.5
    return 0.1


def judge(d):
    out = []
    tmpl, img = make_pair(d)
    mask = make_mask(d)
    Model = get_model(d["model"])
    kw = {}
    if d["cutoff"] is not None:
        kw["cutoff"] = d["cutoff"]
    tilt = make_tilt(d)
    if tilt is not None:
        kw["tilt"] = tilt
    ms = tuple(float(m) for m in d["max_shifts"])
    disp = np.asarray(d["d"], dtype=np.float64)
    quat = Rotation.from_rotvec(d["rot"]["rv"]).as_quat().astype(np.float32)
    with warnings.catch_warnings():
        warnings.simplefilter("ignore")
        model = Model(tmpl, mask, **kw)
        if d["api"] == "fit":
            fitted, res = model.fit(img, ms)
        else:
            res = model.align(img, ms, quaternion=quat if tilt is not None else None)
            fitted = None
        # the same model asked again after an alignment at another orientation (the wedge of one call must not stay in the model)
        if tilt is not None and d["api"] != "fit":
            q2 = Rotation.from_rotvec(d.get("rot2", {"rv": [0.4, -0.9, 0.3]})["rv"]).as_quat().astype(np.float32)
            model.align(img, ms, quaternion=q2)
            res_again = model.align(img, ms, quaternion=quat)
        else:
            res_again = None
    tag = (f"{d['model']} {d['api']} class {d['tclass']} shape={tuple(d['shape'])} max_shifts={ms} d={disp.tolist()} "
           f"mask={d['mask']} cutoff={d['cutoff']} tilt={d['tilt']} bg={d.get('bg', 0.0)}")
    if res_again is not None and (not np.array_equal(np.asarray(res_again.shift), np.asarray(res.shift)) or float(res_again.score) != float(res.score)):
        out.append(viol(f"C04/repeat-call-differs:{d['model']}", f"{tag}: the same align call returned shift {np.round(res.shift, 3).tolist()} score {float(res.score):.5g} and, after "
                        f"an alignment at another orientation, {np.round(res_again.shift, 3).tolist()} / {float(res_again.score):.5g}"))
    shift = np.asarray(res.shift, dtype=np.float64)
    if shift.shape != (3,) or not np.all(np.isfinite(shift)):
        out.append(viol("C04/shift-invalid", f"{tag}: shift={res.shift}"))
        return out
    tol = tolerance(d)
    err = float(np.abs(shift - disp).max())
    if not err <= tol + 1e-6:
        frac = bool(np.any(np.abs(disp - np.round(disp)) > 1e-9))
        sig = f"C04/shift-error:{d['model']}"
        if d["model"] == "FSC" and d["tilt"] is not None and err <= 1.0:  # within one sampling step of the integer landscape
            sig = "C04/fsc-tilt-bias"                     # known finding
        if d["model"] == "FSC" and d["tilt"] is None and frac and err <= 0.6:
            sig = "C04/fsc-fractional-bias"               # known finding
        if d["model"] in ("ZNCC", "NCC"):
            if d["tilt"] is None and tol == 0.1 and frac and err <= 0.15:
                sig = "C04/zncc-ncc-fractional-bias"      # known finding (see known_findings.txt)
            elif d["tilt"] is not None and err <= (1.5 if (d["tilt"]["range"][1] - d["tilt"]["range"][0]) / 2 <= 45.0 else 1.0):
                sig = "C04/zncc-ncc-tilt-bias"            # known finding
        out.append(viol(sig, f"{tag}: returned shift {np.round(shift, 3).tolist()}, error {err:.3f} px > {tol}", err=err))
    if not np.allclose(np.asarray(res.quat, dtype=np.float64), [0, 0, 0, 1], atol=1e-6):
        out.append(viol("C04/quat-not-identity", f"{tag}: quat={res.quat}"))
    # sign convention: shifting the sub-volume by -shift superimposes it on the template
    if err <= tol + 1e-6 and tol == 0.1 and d["tclass"] == "A":
        back = ndi.shift(img.astype(np.float64), -shift, order=3, mode="constant", cval=float(d.get("bg", 0.0)) * float(d.get("gain", 1.0)))
        cc = ref.pearson(back, tmpl)
        if not cc >= 0.98:
            out.append(viol("C04/sign-convention", f"{tag}: corr(shift(img, -shift), template) = {cc:.3f}"))
    if d["model"] in ("ZNCC", "NCC") and d["mask"] == "none" and d["tclass"] == "A":
        if not float(res.score) >= 0.9:
            out.append(viol(f"C04/score-low:{d['model']}", f"{tag}: score {float(res.score):.3f} < 0.9"))
    if not np.isfinite(float(res.score)):
        out.append(viol("C04/score-non-finite", f"{tag}: score {res.score}"))
    if fitted is not None and err <= tol + 1e-6:
        if fitted.shape != tmpl.shape:
            out.append(viol("C04/fit-shape", f"{tag}: fit output shape {fitted.shape}"))
        elif d["tclass"] == "A" and tol == 0.1:
            cc = ref.pearson(fitted, tmpl)
            if not cc >= 0.98:
                out.append(viol("C04/fit-not-superimposed", f"{tag}: corr(fit(img), template) = {cc:.3f}"))
    return out


@st.composite
def displacement(draw, ms):
    cls = draw(st.sampled_from(["zero", "frac", "frac", "int", "boundary", "near-boundary"]))
    d = []
    for m in ms:
        if cls == "zero":
            v = 0.0
        elif cls == "frac":
            v = draw(st.floats(-m, m))
        elif cls == "int":
            k = int(math.floor(m))
            v = float(draw(st.integers(-k, k)))
        elif cls == "boundary":
            v = m * draw(st.sampled_from([-1.0, 1.0])) if draw(st.booleans()) else draw(st.floats(-m, m))
        else:
            w = min(0.75, m)
            v = (m - draw(st.floats(0, w))) * draw(st.sampled_from([-1.0, 1.0]))
        d.append(round(float(v), 3))
    if cls == "boundary" and not any(abs(abs(v) - m) < 1e-9 for v, m in zip(d, ms)):
        i = draw(st.integers(0, 2))
        d[i] = ms[i] * draw(st.sampled_from([-1.0, 1.0]))
    d = [max(-m, min(m, v)) for v, m in zip(d, ms)]
    return cls, d


@st.composite
def cases(draw, models=MODELS):
    model = draw(st.sampled_from(models))
    # FSC weights every shell equally, so its templates must have power in every shell: class B only
    # (band-limited blobs leave the high shells to rounding noise - a degenerate template for FSC)
    tclass = "B" if model == "FSC" else draw(st.sampled_from(["A", "A", "B"]))
    cap = 2.0 if model == "FSC" else 3.5
    mcls = draw(st.sampled_from(["int", "frac", "aniso"]))
    if mcls == "int":
        m = float(draw(st.integers(1, int(cap))))
        ms = [m, m, m]
    elif mcls == "frac":
        m = round(draw(st.floats(0.8, cap)), 2)
        ms = [m, m, m]
    else:
        ms = [round(draw(st.floats(0.8, cap)), 2) for _ in range(3)]
    if tclass == "A":
        sig_hi = 1.6
        need = [int(math.ceil(2 * (3 * 1.0 + m) + 4)) for m in ms]
        shape = [draw(st.integers(max(12, nd), max(20, nd))) for nd in need]
        par = draw(st.sampled_from(["any", "odd", "even", "cubic"]))
        if par == "odd":
            shape = [s if s % 2 else s + 1 for s in shape]
        elif par == "even":
            shape = [s + 1 if s % 2 else s for s in shape]
        elif par == "cubic":
            shape = [max(shape)] * 3
        blobs = []
        for i in range(draw(st.integers(3, 5))):
            s = round(draw(st.floats(1.0, sig_hi)), 3)
            c = []
            for n, m in zip(shape, ms):
                mg = 3 * s + m + 0.5
                lo, hi = mg, n - 1 - mg
                if hi <= lo:
                    lo = hi = (n - 1) / 2
                c.append(round(draw(st.floats(lo, hi)), 3))
            blobs.append({"c": c, "s": s, "a": [1.0, 0.8, 0.65, 0.5, 0.4][i]})
        extra = {"blobs": blobs}
    else:
        shape = draw(gen.box_shapes(8, 20))
        ms = [min(m, round(0.12 * n, 2)) for m, n in zip(ms, shape)]
        ms = [max(m, 0.8) for m in ms]
        extra = {"seed": draw(gen.seeds), "bsigma": draw(st.sampled_from([0.7, 0.9, 1.2]))}
    dcls, dd = draw(displacement(ms))
    mask = draw(st.sampled_from(["none", "none", "none", "binary", "soft"]))
    tilt = None
    if draw(st.sampled_from([False, False, True])):
        # half-widths >= 40 degrees: with narrower wedges the (known, recorded) ZNCC/NCC tilt bias grows
        # without bound, which would only re-report the same finding
        lo = float(draw(st.integers(-70, -40)))
        hi = float(draw(st.integers(40, 70)))
        tilt = {"range": [lo, hi], "axis": draw(st.sampled_from(["y", "y", "x"]))}
    tilt_as = draw(st.sampled_from(["tuple", "model"]))
    if tilt is not None and tilt["axis"] == "x":
        tilt_as = "model"
    out = {"model": model, "tclass": tclass, "shape": shape, "max_shifts": ms, "d": dd, "dclass": dcls,
           "mask": mask, "mask_r": draw(st.sampled_from([0.0, 0.5, 1.5])),
           "cutoff": draw(st.sampled_from([None, None, 0.3, 0.5, 0.8])),
           "tilt": tilt, "tilt_as": tilt_as, "rot": draw(gen.rotvecs()),
           "api": draw(st.sampled_from(["align", "align", "fit"])),
           # grey background only for the real-space models (ZNCC removes the mean, NCC pads with it); PCC/FSC work on
           # float32 spectra whose DC term would dominate the precision budget
           "bg": draw(st.sampled_from([0.0, 0.0, 5.0, -2.0, 40.0, 300.0])) if (mask == "none" and model in ("ZNCC", "NCC")) else 0.0}
    out["gain"] = draw(st.sampled_from([1.0, 1.0, 1.0, 1e-3, 1e-4, 100.0]))
    out.update(extra)
    return out


@st.composite
def wide_cases(draw):
    """search range wider than half the box (up to larger than the box), displacement well inside it"""
    model = draw(st.sampled_from(["ZNCC", "NCC", "PCC"]))
    shape = [draw(st.integers(14, 18)) for _ in range(3)]
    ms = [float(draw(st.sampled_from([n // 2 + 1, n // 2 + 2, n - 1, n, n + 3]))) if draw(st.integers(0, 3)) else 2.0 for n in shape]
    if all(m == 2.0 for m in ms):
        ms[draw(st.integers(0, 2))] = float(shape[0] // 2 + 1)
    blobs = []
    for i in range(draw(st.integers(3, 4))):
        c = [round(draw(st.floats(6.0, n - 7.0)), 3) for n in shape]
        blobs.append({"c": c, "s": 1.0, "a": [1.0, 0.8, 0.65, 0.5][i]})
    dd = [round(draw(st.one_of(st.floats(-2.5, 2.5), st.sampled_from([-2.0, -1.0, 0.0, 1.0, 2.0]))), 3) for _ in range(3)]
    dd = [max(-m, min(m, v)) for v, m in zip(dd, ms)]
    return {"model": model, "tclass": "A", "shape": shape, "max_shifts": ms, "d": dd, "dclass": "wide-range", "mask": "none", "mask_r": 0.0,
            "cutoff": None, "tilt": None, "tilt_as": "tuple", "rot": {"cls": "identity", "rv": [0.0, 0.0, 0.0]}, "api": draw(st.sampled_from(["align", "fit"])),
            "bg": 0.0, "blobs": blobs}


def nontrivial(d):
    disp = np.asarray(d["d"])
    frac = np.any(np.abs(disp - np.round(disp)) > 1e-9)
    bnd = any(abs(abs(v) - m) < 1e-9 for v, m in zip(d["d"], d["max_shifts"]))
    return bool((frac or bnd) and np.abs(disp).max() >= 0.3)


def labels(d):
    return gen.parity_class(d["shape"]) + [f"model:{d['model']}", f"class:{d['tclass']}", f"d:{d['dclass']}",
                                           f"mask:{d['mask']}", "cutoff:" + ("none" if d["cutoff"] is None else "set"),
                                           "tilt:" + ("none" if d["tilt"] is None else d["tilt_as"] + "-" + d["tilt"]["axis"]),
                                           f"api:{d['api']}", "background:grey" if d.get("bg") else "background:zero", f"gain:{d.get('gain', 1.0)}"]


def engines():
    return [
        Engine("fast-models", judge, strategy=cases(["ZNCC", "NCC", "PCC"]), nontrivial=nontrivial, labels=labels,
               cases={"quick": 720, "thorough": 12000}, shards={"quick": 16, "thorough": 16}),
        Engine("wide-range", judge, strategy=wide_cases(), nontrivial=lambda d: any(abs(v) >= 0.5 for v in d["d"]), labels=labels,
               cases={"quick": 96, "thorough": 1500}, shards={"quick": 8, "thorough": 16}),
        Engine("fsc", judge, strategy=cases(["FSC"]), nontrivial=nontrivial, labels=labels,
               cases={"quick": 64, "thorough": 1600}, shards={"quick": 8, "thorough": 16}),
    ]
