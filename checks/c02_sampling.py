"""C02 - Subtomograms sample the tomogram on the molecule's local grid."""
from __future__ import annotations

import math

import numpy as np
from hypothesis import strategies as st

from vlib import gen, ref
from vlib.runner import Engine, viol

PROPERTY = "C02"
RULE = ("Hypothesis draws a smooth tomogram (16..40 per side, non-cubic, numpy or dask with drawn chunks), 1..3 "
        "molecules with a per-axis position class (interior integer / interior fractional / straddling the low or "
        "high face / exactly on the crop-window boundary / slightly outside / far outside), an orientation class, "
        "an output shape 1..9 per side (parity classes), order in {0,1,3}, scale and corner_safe. Every loaded "
        "voxel inside the guaranteed region is compared with map_coordinates of the float64 tomogram at "
        "pos/scale + R(k-(shape-1)/2); the exact-block class (identity, integer pixel position, odd box) must "
        "reproduce the tomogram block; out-of-bound behaviour (finite fill / SubvolumeOutOfBoundError) and the "
        "four loading routes are checked. Non-trivial = a compared voxel with a non-identity rotation or fractional "
        "position, or a boundary/outside class.")
RULE += (" " + 'Also: tomogram dtypes float16 (incl. values near the top of its range), float32 and float64. Round 7: order / output_shape given as numpy integers (np.uint8, np.int64 scalar, uint8 array), a batch loader holding the same tomogram under two image ids (corner_safe must reach it), up to 4 molecules per case. Engine `loader-grid` (enumerated, 24 cases): loader kind x corner_safe x order x two boxes with interior molecules in generic orientations spread over three z-chunks in a cyclic order.')
TOLERANCES = {"order0": "exact (voxels within 1e-3 of a rounding tie skipped)", "order1": "1e-4 * range",
              "order3": "2e-2 * range, compared >= 3 voxels inside the tomogram (prefilter of the cropped window)",
              "exact block": "1e-5 * range for every order"}
ASSUMPTIONS = ["guaranteed region without corner_safe = voxel centres within (min(shape)-1)/2 of the box centre",
               "reference interpolation: scipy.ndimage.map_coordinates on the float64 tomogram"]


def make_tomo(d):
    t = gen.smooth_noise(d["seed"], d["tshape"], sigma=d["sigma"])
    if d.get("tdtype") == "float16-big":
        # half-precision data close to the top of the float16 range (raw counts): sums over a few voxels exceed 65504
        return (t * 6000.0 + 30000.0).astype(np.float16)
    return t.astype(d.get("tdtype", "float32"))  # the reference interpolates these (rounded) values in float64


def as_input(t, d):
    if d["chunks"] is None:
        return t
    import dask.array as da
    return da.from_array(t, chunks=tuple(tuple(c) for c in d["chunks"]))


def region_G(shape, corner_safe):
    shape = tuple(shape)
    if corner_safe:
        return np.ones(shape, dtype=bool)
    c = (np.asarray(shape) - 1) / 2
    k = np.stack(np.meshgrid(*[np.arange(n) for n in shape], indexing="ij"), axis=-1)
    r = np.sqrt(((k - c) ** 2).sum(-1))
    return r <= (min(shape) - 1) / 2 + 1e-9


def judge(d):
    from acryo import SubtomogramLoader, Molecules
    from acryo._utils import SubvolumeOutOfBoundError
    from scipy import ndimage as ndi

    out = []
    tomo = make_tomo(d)
    T = np.asarray(tomo.shape)
    rng = float(tomo.max() - tomo.min())
    shape = tuple(d["shape"])
    order, scale, cs = d["order"], d["scale"], d["corner_safe"]
    pos_px = np.array([m["c"] for m in d["mols"]], dtype=np.float64)
    R = gen.rots_of([m["rot"]["rv"] for m in d["mols"]]) if hasattr(gen, "rots_of") else None
    from scipy.spatial.transform import Rotation
    R = Rotation.from_rotvec(np.array([m["rot"]["rv"] for m in d["mols"]], dtype=np.float64))
    mole = Molecules(pos_px * scale, R)
    # order / output_shape as python ints or as numpy integers (values read from a header or an array)
    af = d.get("argform", "py")
    order_arg = np.uint8(order) if af == "np-small" else (np.int64(order) if af == "np-scalar" else order)
    shape_arg = (np.array(shape, dtype=np.uint8) if af == "np-small"
                 else (np.int64(shape[0]) if af == "np-scalar" and len(set(shape)) == 1 else shape))
    if d.get("loader_kind") == "batch":
        # the same tomogram registered twice in a batch loader, the molecules split between the two registrations
        from acryo import BatchLoader
        loader = BatchLoader(order=order_arg, scale=scale, output_shape=shape_arg, corner_safe=cs)
        k = (len(mole) + 1) // 2
        loader.add_tomogram(as_input(tomo, d), mole.subset(slice(0, k)), image_id=0)
        if k < len(mole):
            loader.add_tomogram(as_input(tomo, d), mole.subset(slice(k, None)), image_id=1)
    else:
        loader = SubtomogramLoader(as_input(tomo, d), mole, order=order_arg, scale=scale, output_shape=shape_arg,
                                   corner_safe=cs)
    G = region_G(shape, cs)
    t64 = tomo.astype(np.float64)
    if order == 3:
        coef = ndi.spline_filter(t64, order=3, mode="mirror")
    n = len(d["mols"])
    # per molecule expectations
    info = []
    for i in range(n):
        c = mole.pos[i].astype(np.float64) / scale
        X = ref.sample_coords(c, R[i], shape)
        lo = 3.0 if order == 3 else 0.0
        inb = np.ones(shape, dtype=bool)
        for a in range(3):
            inb &= (X[a] >= lo) & (X[a] <= T[a] - 1 - lo)
        if order == 3:
            val = ndi.map_coordinates(coef, X, order=3, mode="mirror", prefilter=False)
        else:
            val = ndi.map_coordinates(t64, X, order=order, mode="nearest")
        inside_any = np.ones(shape, dtype=bool)
        for a in range(3):
            inside_any &= (X[a] >= 0) & (X[a] <= T[a] - 1)
        diag = math.sqrt(sum(s * s for s in shape))
        dist_out = 0.0
        for a in range(3):
            dist_out = max(dist_out, -c[a], c[a] - (T[a] - 1))
        info.append(dict(c=c, X=X, inb=inb, val=val, has_inbounds=bool((inside_any & G).any()),
                         far=dist_out > diag + 2 * order + 2))
    try:
        arr = loader.asnumpy()
    except SubvolumeOutOfBoundError as e:
        bad = [i for i in range(n) if info[i]["has_inbounds"]]
        if all(info[i]["has_inbounds"] for i in range(n)):
            out.append(viol("C02/spurious-out-of-bound", f"SubvolumeOutOfBoundError although every molecule's guaranteed "
                            f"region overlaps the tomogram: {e}"))
        return out
    if arr.shape != (n,) + shape:
        out.append(viol("C02/stack-shape", f"asnumpy shape {arr.shape} != {(n,) + shape}"))
        return out
    for i in range(n):
        sub = arr[i]
        tag = f"mol {i} c={np.round(info[i]['c'], 3).tolist()} shape={shape} order={order} cs={cs}"
        if info[i]["far"]:
            out.append(viol("C02/no-error-far-outside", f"{tag}: window has no overlap with the tomogram {tuple(T)} but no error was raised"))
            continue
        if not np.all(np.isfinite(sub)):
            out.append(viol("C02/non-finite", f"{tag}: {int((~np.isfinite(sub)).sum())} non-finite voxels returned "
                            f"(tomogram {tuple(T)})"))
            continue
        cmp = info[i]["inb"] & G
        if order == 0:
            X = info[i]["X"]
            frac = np.abs((X - np.floor(X)) - 0.5)
            cmp &= ~(frac < 1e-3).any(axis=0)
        if cmp.any():
            err = np.abs(sub.astype(np.float64) - info[i]["val"])[cmp]
            tol = {0: 1e-6, 1: 1e-4, 3: 2e-2}[order] * rng
            if not err.max() <= tol:
                out.append(viol(f"C02/sampling-rule:order{order}", f"{tag}: max |loaded - tomogram(pos/scale + R(k-(shape-1)/2))| = "
                                f"{err.max():.4g} > {tol:.3g} on {int(cmp.sum())} compared voxels (rot={d['mols'][i]['rot']['rv']})",
                                err=float(err.max())))
        # exact block
        c = info[i]["c"]
        if d["mols"][i]["rot"]["cls"] == "identity" and all(s % 2 for s in shape) and np.all(np.abs(c - np.round(c)) < 2e-5):
            ci = np.round(c).astype(int)
            lo = ci - (np.asarray(shape) - 1) // 2
            hi = lo + np.asarray(shape)
            if np.all(lo >= 0) and np.all(hi <= T):
                block = tomo[lo[0]:hi[0], lo[1]:hi[1], lo[2]:hi[2]]
                e = float(np.abs(sub - block).max())
                # exact for exactly integer coordinates; float32 pos/scale may be ~1e-6 px off for non-dyadic scales
                exact_tol = 1e-5 if np.all(np.abs(c - np.round(c)) < 1e-9) else (0.0 if order == 0 else 2e-4)
                if not e <= exact_tol * rng + (1e-12 if order else 0.0):
                    out.append(viol("C02/exact-block", f"{tag}: identity/integer/odd subtomogram differs from the tomogram block by {e:.3g}"))
    # routes
    for i in range(n):
        a = loader.load(i)
        if not np.array_equal(a, arr[i], equal_nan=True):
            out.append(viol("C02/routes-differ", f"load({i}) != asnumpy()[{i}]"))
            break
    if n >= 2:
        sl = loader.load(slice(0, n))
        if sl.shape != arr.shape or not np.array_equal(sl, arr, equal_nan=True):
            out.append(viol("C02/routes-differ", "load(slice(0, n)) != asnumpy()"))
        idx = list(range(n))[::-1]
        li = loader.load(idx)
        if li.shape != arr.shape or not np.array_equal(li, arr[idx], equal_nan=True):
            out.append(viol("C02/routes-differ", f"load({idx}) != asnumpy()[{idx}]"))
    it = list(loader.load_iter())
    if len(it) != n or any(not np.array_equal(a, b, equal_nan=True) for a, b in zip(it, arr)):
        out.append(viol("C02/routes-differ", "load_iter() != asnumpy()"))
    dk = loader.construct_dask()
    if tuple(dk.shape) != arr.shape or not np.array_equal(dk.compute(), arr, equal_nan=True):
        out.append(viol("C02/routes-differ", "construct_dask().compute() != asnumpy()"))
    return out


@st.composite
def axis_pos(draw, n, s, order, cls):
    """pixel coordinate along one axis for a position class."""
    half = s / 2
    order = max(order, 1)  # crop margin used by the loader
    if cls == "int":
        lo, hi = math.ceil(half + order + 1), math.floor(n - half - order - 2)
        if hi < lo:
            return float(n // 2)
        return float(draw(st.integers(lo, hi)))
    if cls == "frac":
        lo, hi = half + order + 1, n - half - order - 2
        if hi <= lo:
            return n / 2 + 0.25
        return round(draw(st.floats(lo, hi)), 3)
    if cls == "low":
        return round(draw(st.floats(-half + 0.6, half)), 3)
    if cls == "high":
        return round(draw(st.floats(n - 1 - half, n - 1 + half - 0.6)), 3)
    if cls == "edge":  # crop window exactly touches the tomogram: x0 == n or x1 == 0
        f = draw(st.sampled_from([0.0, 0.3, 0.6, 0.95]))
        if draw(st.booleans()):
            return n + half + order + f
        return half + order - (s + 2 * order + 1) - f
    if cls == "out":
        if draw(st.booleans()):
            return round(draw(st.floats(-half - 1.0, -0.1)), 3)
        return round(draw(st.floats(n - 0.9, n + half)), 3)
    raise ValueError(cls)


@st.composite
def cases(draw):
    tshape = [draw(st.integers(16, 40)) for _ in range(3)]
    shape = draw(gen.box_shapes(1, 9))
    order = draw(st.sampled_from([0, 1, 3]))
    exact = draw(st.sampled_from([False, False, True]))
    if exact:
        shape = [s if s % 2 else s + 1 for s in shape]
    kind = draw(st.sampled_from(["interior", "interior", "boundary", "far"]))
    nmol = draw(st.sampled_from([1, 2, 3, 3, 4])) if kind == "interior" else 1
    mols = []
    for _ in range(nmol):
        if kind == "interior":
            if exact:
                c = [draw(axis_pos(n, s, order, "int")) for n, s in zip(tshape, shape)]
                rot = {"cls": "identity", "rv": [0.0, 0.0, 0.0]}
            else:
                c = [draw(axis_pos(n, s, order, draw(st.sampled_from(["int", "frac", "frac"]))))
                     for n, s in zip(tshape, shape)]
                rot = draw(gen.rotvecs())
            classes = ["interior"]
        elif kind == "boundary":
            # half of the boundary cases only straddle faces (every voxel inside the tomogram is still compared); the other
            # half also touches / leaves the tomogram, where the error behaviour is what is checked
            pool = ["frac", "low", "high"] if draw(st.booleans()) else ["frac", "low", "high", "edge", "out"]
            classes = [draw(st.sampled_from(pool)) for _ in range(3)]
            if all(c_ == "frac" for c_ in classes):
                classes[draw(st.integers(0, 2))] = draw(st.sampled_from(pool[1:]))
            c = [draw(axis_pos(n, s, order, cl)) for n, s, cl in zip(tshape, shape, classes)]
            rot = draw(gen.rotvecs())
        else:
            diag = math.sqrt(sum(s * s for s in shape))
            c = [round(draw(st.floats(0, n)), 2) for n in tshape]
            a = draw(st.integers(0, 2))
            off = diag + 2 * order + 3 + draw(st.floats(0, 30))
            c[a] = -off if draw(st.booleans()) else tshape[a] - 1 + off
            rot = draw(gen.rotvecs())
            classes = ["far"]
        mols.append({"c": [float(v) for v in c], "rot": rot, "classes": classes})
    chunks = None
    if draw(st.booleans()):
        chunks = draw(gen.chunkings(tshape, min_chunk=2))
    scale = draw(st.sampled_from([1.0, 0.5, 2.0, 0.3, 1.1, 0.2634, 1.37, 3.3])) if exact else draw(gen.scales)
    return {"tshape": tshape, "seed": draw(gen.seeds), "sigma": draw(st.sampled_from([0.6, 1.0, 1.5])),
            "loader_kind": draw(st.sampled_from(["single", "single", "batch"])),
            "argform": draw(st.sampled_from(["py", "py", "py", "np-small", "np-scalar"])),
            "shape": shape, "order": order, "scale": scale, "corner_safe": draw(st.booleans()),
            "mols": mols, "chunks": chunks, "kind": kind, "exact": exact,
            "tdtype": draw(st.sampled_from(["float32", "float32", "float32", "float64", "float16", "float16-big"]))}


def nontrivial(d):
    if d["kind"] != "interior":
        return True
    return any(m["rot"]["cls"] != "identity" or any(abs(v - round(v)) > 1e-9 for v in m["c"]) for m in d["mols"])


def labels(d):
    labs = set(gen.parity_class(d["shape"]))
    labs.add(f"order:{d['order']}")
    labs.add(f"kind:{d['kind']}")
    labs.add("corner_safe" if d["corner_safe"] else "not-corner_safe")
    labs.add("tomo:dask" if d["chunks"] else "tomo:numpy")
    labs.add("dtype:" + d.get("tdtype", "float32"))
    if d["exact"] and d["kind"] == "interior":
        labs.add("exact-block-class")
    for m in d["mols"]:
        labs.add(f"rot:{m['rot']['cls']}")
        for c in m["classes"]:
            labs.add(f"pos:{c}")
    labs.add("scale:1" if d["scale"] == 1.0 else "scale:other")
    return sorted(labs)


def loader_grid(tier="quick"):
    """enumerated: loader kind x corner_safe x order x two boxes x two generic orientations, interior molecules (the
    combinations every loader option must survive, independent of what the random draw happens to cover)"""
    rots = [[0.5, 0.4, -0.6], [-0.7, 0.3, 0.6]]
    for lk in ("single", "batch"):
        for cs in (False, True):
            for order in (0, 1, 3):
                for shape in ([7, 7, 7], [4, 9, 6]):
                    yield {"tshape": [32, 30, 34], "seed": 3, "sigma": 1.0, "shape": shape, "order": order, "scale": 1.0 if order != 1 else 0.5,
                           "corner_safe": cs, "loader_kind": lk, "argform": "py",
                           "mols": [{"c": [15.3, 16.2, 14.8], "rot": {"cls": "generic", "rv": rots[0]}, "classes": ["interior"]},
                                    {"c": [25.0, 12.5, 17.25], "rot": {"cls": "generic", "rv": rots[1]}, "classes": ["interior"]},
                                    {"c": [7.0, 15.0, 16.0], "rot": {"cls": "identity", "rv": [0.0, 0.0, 0.0]}, "classes": ["interior"]}],
                           # three z-chunks visited in the order (1, 2, 0) by the molecules: a 3-cycle
                           "chunks": None if order == 3 else [[11, 10, 11], [30], [10, 24]], "kind": "interior", "exact": False, "tdtype": "float32"}


def engines():
    return [Engine("sampling", judge, strategy=cases(), nontrivial=nontrivial, labels=labels,
                   cases={"quick": 400, "thorough": 20000}, shards={"quick": 8, "thorough": 16}),
            Engine("loader-grid", judge, enumerate=loader_grid, nontrivial=nontrivial, labels=labels,
                   cases={"quick": 24, "thorough": 24}, shards={"quick": 4, "thorough": 4})]
