"""C03 - Row i of every result belongs to molecule i.

Model-based: tomograms encode (tomogram, z, y, x) in every voxel value, molecules sit at distinct integer
positions with identity orientation and carry a uid, so the centre voxel of a loaded subtomogram names the
molecule it was cut at. A generated history of loader operations is mirrored on a list-of-rows model.
"""
from __future__ import annotations

import warnings

import math

import numpy as np
from hypothesis import strategies as st

from vlib import gen
from vlib.runner import Engine, viol, HarnessError

PROPERTY = "C03"
RULE = ("Hypothesis draws 1-3 identity-encoding tomograms (voxel = t*10^6 + z*10^4 + y*100 + x) with 1-5 molecules each at "
        "distinct integer positions (uid, weight and key features), a construction route (single loader, BatchLoader "
        "via add_tomogram with explicit or automatic ids, from_loaders / add_loader), a history of <= 6 derivations "
        "(filter, head, tail, sample, add_tomogram on the derived loader, replace(molecules = sorted / permuted / interleaved), replace(order / "
        "output_shape), binning bookkeeping, groupby + group filter/head/tail/sample + pick a group) and observations "
        "(asnumpy, load(i), apply, score, align, construct_landscape, group average / count / apply / align). A list of "
        "(image id, uid) rows is the model. Invariants: rows and image ids equal the model, the decoded centre voxel of "
        "subtomogram i is molecule i, per-molecule results equal those of a single-molecule loader, ancestors are not "
        "modified, groups partition their parent and can be iterated repeatedly. Non-trivial = an order-changing or "
        "id-interleaving step on a batch with >= 2 tomograms followed by a per-molecule observation, or a derived "
        "group consumed twice.")
RULE += (" " + 'Also: load with index lists / numpy index arrays in any order (repeats, negative entries) and stepped slices at every step, add_tomogram with an image id that is already in use (must be rejected), group.apply tables, unseeded group.sample iterated twice and aligned.')
TOLERANCES = {"decoding": "exact (integers < 2^24 in float32)", "differential": "bitwise / 1e-6 relative"}
ASSUMPTIONS = ["add_tomogram / add_loader are construction steps on a fresh BatchLoader (they are documented to mutate it)"]

SIZE = 24


def make_tomo(t):
    z, y, x = np.meshgrid(np.arange(SIZE), np.arange(SIZE), np.arange(SIZE), indexing="ij")
    return (t * 1_000_000 + z * 10_000 + y * 100 + x).astype(np.float32)


def decode(v):
    v = int(round(float(v)))
    return v // 1_000_000, (v // 10_000) % 100, (v // 100) % 100, v % 100


class Row:
    __slots__ = ("uid", "tomo", "image_id", "pos", "w", "k")

    def __init__(self, uid, tomo, image_id, pos, w, k):
        self.uid, self.tomo, self.image_id, self.pos, self.w, self.k = uid, tomo, image_id, pos, w, k


def judge(d):
    from acryo import SubtomogramLoader, BatchLoader, Molecules
    from acryo.alignment import ZNCCAlignment
    import polars as pl

    out = []
    ntomo = d["ntomo"]
    tomos = [make_tomo(t + 1) for t in range(ntomo)]
    rows_by_tomo = []
    uid = 0
    used_ids = d["ids"][:ntomo] if d["explicit_ids"] else list(range(ntomo))
    if len(set(used_ids)) != ntomo:
        used_ids = list(range(ntomo))
    for t in range(ntomo):
        rows = []
        seen = set()
        for p in d["mols"][t]:
            pos = tuple(4 + (c % 16) for c in p["pos"])
            if pos in seen:
                continue
            seen.add(pos)
            rows.append(Row(uid, t, used_ids[t], pos, float((uid * 37) % 101) + 0.5, p["k"] % 3))
            uid += 1
        rows_by_tomo.append(rows)

    from scipy.spatial.transform import Rotation

    def rot_of(r):
        # a per-molecule orientation derived from the uid; the centre voxel of a 3x3x3 box does not move under rotation,
        # so the identity decoding still works, while tilt-dependent results become orientation (= row) specific
        if not d.get("orient"):
            return [0.0, 0.0, 0.0]
        a = 0.3 + 0.37 * r.uid
        return [0.9 * np.sin(a), 0.7 * np.cos(1.3 * a), 0.5 * np.sin(2.1 * a + 1.0)]

    def mole_of(rows):
        rot = Rotation.from_rotvec(np.array([rot_of(r) for r in rows]).reshape(-1, 3)) if rows else None
        return Molecules(np.array([r.pos for r in rows], dtype=np.float32).reshape(-1, 3), rot,
                         features=pl.DataFrame({"uid": [r.uid for r in rows], "w": [r.w for r in rows], "k": [r.k for r in rows]}))

    route = d["route"] if ntomo > 1 else d["route1"]
    batch = route != "single"
    if route == "single":
        loader = SubtomogramLoader(tomos[0], mole_of(rows_by_tomo[0]), order=d["order"], output_shape=(3, 3, 3))
        model = list(rows_by_tomo[0])
    elif route == "add_tomogram":
        loader = BatchLoader(order=d["order"], output_shape=(3, 3, 3))
        model = []
        for t in range(ntomo):
            loader.add_tomogram(tomos[t], mole_of(rows_by_tomo[t]), image_id=used_ids[t] if d["explicit_ids"] else None)
            model += rows_by_tomo[t]
    else:
        subs = [SubtomogramLoader(tomos[t], mole_of(rows_by_tomo[t]), order=d["order"]) for t in range(ntomo)]
        if route == "from_loaders":
            loader = BatchLoader.from_loaders(subs, order=d["order"], output_shape=(3, 3, 3))
        else:
            loader = BatchLoader(order=d["order"], output_shape=(3, 3, 3))
            for s in subs:
                loader.add_loader(s)
        model = []
        for t in range(ntomo):
            for r in rows_by_tomo[t]:
                r.image_id = t
            model += rows_by_tomo[t]
    image_of = {r.image_id: tomos[r.tomo] for rs in rows_by_tomo for r in rs}
    byuid = {r.uid: r for rs in rows_by_tomo for r in rs}

    def check_rows(tag, ldr, mrows, ordered=True):
        f = ldr.molecules.features
        n = len(mrows)
        if len(ldr.molecules) != n or ldr.count() != n:
            out.append(viol("C03/row-count", f"{tag}: {len(ldr.molecules)} molecules, model has {n}"))
            return False
        if n == 0:
            return True
        got = f["uid"].to_list()
        want = [r.uid for r in mrows]
        if (got != want) if ordered else (sorted(got) != sorted(want)):
            out.append(viol("C03/rows", f"{tag}: uids {got}, model {want}"))
            return False
        for i, u in enumerate(got):
            r = byuid[u]
            if tuple(int(round(float(v))) for v in ldr.molecules.pos[i]) != r.pos and not d.get("_binned"):
                out.append(viol("C03/position-detached", f"{tag}: row {i} uid {u} has position {ldr.molecules.pos[i].tolist()} (expected {r.pos})"))
                return False
            if batch and int(f["image-id"][i]) != r.image_id:
                out.append(viol("C03/image-id-lost", f"{tag}: row {i} uid {u} has image-id {f['image-id'][i]} (registered with {r.image_id})"))
                return False
            if float(f["w"][i]) != r.w:
                out.append(viol("C03/feature-detached", f"{tag}: row {i} uid {u} has w={f['w'][i]} (expected {r.w})"))
                return False
        return True

    def check_subtomograms(tag, ldr):
        n = ldr.count()
        if n == 0:
            return
        got = ldr.molecules.features["uid"].to_list()
        with warnings.catch_warnings():
            warnings.simplefilter("ignore")
            subs = ldr.asnumpy(output_shape=(3, 3, 3))
        if subs.shape[0] != n:
            out.append(viol("C03/stack-length", f"{tag}: asnumpy returned {subs.shape[0]} subtomograms for {n} molecules"))
            return
        for i, u in enumerate(got):
            r = byuid[u]
            t, z, y, x = decode(subs[i][1, 1, 1])
            if (t - 1, (z, y, x)) != (r.tomo, r.pos):
                out.append(viol("C03/subtomogram-row", f"{tag}: subtomogram {i} was cut at tomogram {t - 1} position {(z, y, x)} but row {i} is uid {u} "
                                f"(tomogram {r.tomo}, position {r.pos}); row order {got}"))
                return
        if d["obs_load"]:
            i = d["obs_i"] % n
            with warnings.catch_warnings():
                warnings.simplefilter("ignore")
                one = ldr.load(i, output_shape=(3, 3, 3))
            if not np.array_equal(one, subs[i]):
                out.append(viol("C03/load-row", f"{tag}: load({i}) != asnumpy()[{i}]"))
            # index lists in any order, with repeats and negative indices; slices with a step
            idx = [int(v) % (2 * n) - n for v in d.get("obs_idx", [0])]
            sl = slice(*d.get("obs_slice", [None, None, None]))
            with warnings.catch_warnings():
                warnings.simplefilter("ignore")
                many = ldr.load(idx, output_shape=(3, 3, 3))
                # (an empty selection has nothing to stack and raises: not a row-attribution question)
                part = ldr.load(sl, output_shape=(3, 3, 3)) if len(subs[sl]) else subs[sl]
            if many.shape != (len(idx), 3, 3, 3) or not np.array_equal(many, subs[idx]):
                out.append(viol("C03/load-list-rows", f"{tag}: load({idx}) != asnumpy()[{idx}] (shape {many.shape})"))
            # the same indices as a numpy integer array (an iterable of ints as well)
            with warnings.catch_warnings():
                warnings.simplefilter("ignore")
                many_a = ldr.load(np.array(idx, dtype=np.int64), output_shape=(3, 3, 3))
            if many_a.shape != (len(idx), 3, 3, 3) or not np.array_equal(many_a, subs[idx]):
                out.append(viol("C03/load-array-rows", f"{tag}: load(np.array({idx})) != asnumpy()[{idx}] (shape {many_a.shape})"))
            if part.shape != subs[sl].shape or not np.array_equal(part, subs[sl]):
                out.append(viol("C03/load-slice-rows", f"{tag}: load({sl}) != asnumpy()[{sl}] (shape {part.shape})"))

    def snapshot(ldr):
        m = ldr.molecules
        return (m.pos.copy(), m.quaternion().copy(), m.features.clone(), sorted(map(str, ldr.images.keys())) if hasattr(ldr, "images") else None)

    def unchanged(tag, ldr, snap):
        m = ldr.molecules
        ok = np.array_equal(m.pos, snap[0]) and np.array_equal(m.quaternion(), snap[1]) and m.features.equals(snap[2])
        if hasattr(ldr, "images") and sorted(map(str, ldr.images.keys())) != snap[3]:
            ok = False
        if not ok:
            out.append(viol("C03/ancestor-modified", f"{tag}: a derived operation modified the loader it was derived from"))

    if not check_rows("construction", loader, model):
        return out
    check_subtomograms("construction", loader)
    ancestors = [(loader, snapshot(loader), "construction")]
    cur, cur_model = loader, model
    binned = False

    for k, op in enumerate(d["ops"]):
        name = op["op"]
        tag = f"step {k} {name}"
        n = len(cur_model)
        with warnings.catch_warnings():
            warnings.simplefilter("ignore")
            if name == "filter":
                kind = op["kind"]
                if kind == "w":
                    thr = op["thr"]
                    new = cur.filter(pl.col("w") > thr)
                    nm = [r for r in cur_model if r.w > thr]
                elif kind == "k":
                    new = cur.filter(pl.col("k") == op["kv"])
                    nm = [r for r in cur_model if r.k == op["kv"]]
                elif kind == "image" and batch:
                    iid = used_ids[op["kv"] % ntomo] if route == "add_tomogram" else op["kv"] % ntomo
                    new = cur.filter(pl.col("image-id") == iid)
                    nm = [r for r in cur_model if r.image_id == iid]
                else:
                    mask = [bool((r.uid + op["kv"]) % 2) for r in cur_model]
                    new = cur.filter(mask)
                    nm = [r for r, b in zip(cur_model, mask) if b]
                if not nm:
                    continue  # keep at least one molecule
            elif name in ("head", "tail"):
                # (taking no molecule at all is legal too; the history then continues with a non-empty selection)
                if cur.head(0).count() != 0 or cur.tail(0).count() != 0:
                    out.append(viol("C03/head-tail-zero", f"{tag}: head(0) holds {cur.head(0).count()} and tail(0) holds {cur.tail(0).count()} molecules, expected none"))
                    return out
                c = 1 + op["n"] % max(1, n)
                new = cur.head(c) if name == "head" else cur.tail(c)
                nm = cur_model[:c] if name == "head" else cur_model[n - c:]
            elif name == "sample":
                c = 1 + op["n"] % max(1, n)
                new = cur.sample(c, seed=op["seed"])
                got = new.molecules.features["uid"].to_list()
                if len(got) != c or len(set(got)) != c or not set(got) <= {r.uid for r in cur_model}:
                    out.append(viol("C03/sample", f"{tag}: sample({c}) returned uids {got} from {[r.uid for r in cur_model]}"))
                    return out
                nm = [byuid[u] for u in got]
            elif name == "replace-sorted":
                m2 = cur.molecules.sort("w", descending=op["desc"])
                new = cur.replace(molecules=m2)
                nm = sorted(cur_model, key=lambda r: r.w, reverse=op["desc"])
            elif name == "replace-perm":
                perm = sorted(range(n), key=lambda i: (op["keys"][i % len(op["keys"])], i))
                new = cur.replace(molecules=cur.molecules.subset(perm))
                nm = [cur_model[i] for i in perm]
            elif name == "replace-params":
                new = cur.replace(order=op["order"], output_shape=(3, 3, 3))
                nm = list(cur_model)
            elif name == "copy":
                new = cur.copy()
                nm = list(cur_model)
            elif name == "binning":
                if binned:
                    continue
                new = cur.binning(2, compute=True)
                nm = list(cur_model)
                binned = True
                d["_binned"] = True
            elif name == "add_tomogram":
                # extending a (derived) batch loader: documented to mutate that loader only
                if not batch or binned or len(tomos) >= 6:
                    continue
                t_new = len(tomos)
                tomos.append(make_tomo(t_new + 1))
                taken = set(cur.images.keys())
                new_rows = []
                for j, pp in enumerate(op["pos"]):
                    pos = tuple(4 + (c % 16) for c in pp)
                    if pos in {r.pos for r in new_rows}:
                        continue
                    new_rows.append(Row(max(byuid) + 1 + len(new_rows), t_new, None, pos, float(((max(byuid) + 1 + j) * 37) % 101) + 0.5, j % 3))
                explicit = op["explicit"]
                iid = None
                if explicit:
                    iid = 50 + t_new
                if op.get("dup_id") and taken and len(cur_model):
                    # an explicit id that is already in use for another tomogram must not re-point the molecules registered with it
                    # (rejecting the call is fine; accepting it silently is only fine if nothing changes for the old molecules)
                    dup = sorted(taken, key=str)[op["dup_id"] % len(taken)]
                    try:
                        cur.add_tomogram(tomos[t_new], mole_of(new_rows), image_id=dup)
                    except ValueError:
                        tomos.pop()
                        continue
                    out.append(viol("C03/duplicate-image-id-accepted", f"{tag}: add_tomogram(image_id={dup!r}) with another tomogram was accepted although "
                                    f"{sum(1 for r in cur_model if r.image_id == dup)} molecules are registered with that id"))
                    return out
                ret = cur.add_tomogram(tomos[t_new], mole_of(new_rows), image_id=iid)
                if ret is not cur:
                    out.append(viol("C03/add_tomogram-return", f"{tag}: add_tomogram did not return the loader"))
                got_ids = cur.molecules.features["image-id"].to_list()[len(cur_model):]
                if len(got_ids) != len(new_rows) or len(set(got_ids)) != 1:
                    out.append(viol("C03/add_tomogram-rows", f"{tag}: new molecules carry image ids {got_ids}"))
                    return out
                new_id = got_ids[0]
                if new_id in taken or (explicit and new_id != iid):
                    out.append(viol("C03/image-id-collision", f"{tag}: the new tomogram was registered under image id {new_id!r}, "
                                    f"ids already in use: {sorted(map(str, taken))} (explicit id: {iid})"))
                    return out
                for r in new_rows:
                    r.image_id = new_id
                    byuid[r.uid] = r
                new = cur
                nm = cur_model + new_rows
                # the mutated loader's own snapshot is refreshed below; every other ancestor must be untouched
                ancestors = [(a, sn, tg) for a, sn, tg in ancestors if a is not cur]
            elif name == "groupby":
                grp = cur.groupby("k")
                items1 = list(grp)
                items2 = list(grp)
                want = {}
                for r in cur_model:
                    want.setdefault(r.k, []).append(r)
                keys1 = [kk for kk, _ in items1]
                if sorted(keys1) != sorted(want) or len(items2) != len(items1):
                    out.append(viol("C03/group-partition", f"{tag}: group keys {keys1} (second iteration: {len(items2)} groups), expected {sorted(want)}"))
                    return out
                for kk, sub in items1:
                    if not check_rows(f"{tag} group {kk}", sub, want[kk]):
                        return out
                    if not binned:
                        check_subtomograms(f"{tag} group {kk}", sub)
                # group-wise apply: row i of each group's table belongs to molecule i of that group
                if not binned:
                    def f_centre(a):
                        return float(a[1, 1, 1])

                    def f_corner(a):
                        return float(a[0, 0, 0])

                    tabs = grp.apply([f_centre, f_corner], schema=["centre", "corner"])
                    for kk, rows_k in want.items():
                        df = tabs.get(kk)
                        if df is None or df.height != len(rows_k) or df.columns != ["centre", "corner"]:
                            out.append(viol("C03/group-apply-shape", f"{tag}: group {kk}: apply table {None if df is None else (df.shape, df.columns)} for {len(rows_k)} molecules"))
                            continue
                        for i, r in enumerate(rows_k):
                            t_, z_, y_, x_ = decode(df["centre"][i])
                            if (t_ - 1, (z_, y_, x_)) != (r.tomo, r.pos):
                                out.append(viol("C03/group-apply-row", f"{tag}: group {kk} ({len(rows_k)} molecules, 2 functions): row {i} column 'centre' decodes to tomogram {t_ - 1} "
                                                f"{(z_, y_, x_)} but molecule {i} is uid {r.uid} at {r.pos}"))
                                break
                # derived group, consumed twice
                dk = op["derive"]
                if dk == "head":
                    dg = grp.head(2)
                    dwant = {kk: v[:2] for kk, v in want.items()}
                elif dk == "tail":
                    dg = grp.tail(1)
                    dwant = {kk: v[-1:] for kk, v in want.items()}
                elif dk == "filter":
                    dg = grp.filter(pl.col("w") > op["thr"])
                    dwant = {kk: [r for r in v if r.w > op["thr"]] for kk, v in want.items()}
                elif dk == "sample":
                    # an unseeded random subset per group: whatever was drawn, the derived group is that subset from then on
                    dg = grp.sample(min(1 + op["pick"] % 2, min(len(v) for v in want.values())))
                    it1 = {kk: sub.molecules.features["uid"].to_list() for kk, sub in dg}
                    it2 = {kk: sub.molecules.features["uid"].to_list() for kk, sub in dg}
                    if it1 != it2:
                        out.append(viol("C03/derived-group-unstable", f"{tag}: two iterations over group.sample(n) yield different molecules: {it1} then {it2}"))
                        return out
                    if any(not set(u) <= {r.uid for r in want[kk]} for kk, u in it1.items()):
                        out.append(viol("C03/group-sample", f"{tag}: group.sample drew molecules of another group: {it1}"))
                        return out
                    dwant = {kk: [byuid[u] for u in it1.get(kk, [])] for kk in want}
                else:
                    dg = grp
                    dwant = want
                cnt = dg.count()
                exp_cnt = {kk: len(v) for kk, v in dwant.items()}
                if {kk: c for kk, c in cnt.items() if c} != {kk: c for kk, c in exp_cnt.items() if c}:
                    out.append(viol("C03/group-count", f"{tag}: derived group ({dk}) count {dict(cnt)}, expected {exp_cnt}"))
                nonempty = sorted(kk for kk, c in exp_cnt.items() if c)
                if not binned:
                    try:
                        avg = dg.average((3, 3, 3))
                        got_keys = sorted(avg.keys())
                    except Exception as e:  # noqa: BLE001
                        import traceback
                        if not any("/acryo/" in f.filename for f in traceback.extract_tb(e.__traceback__)):
                            raise
                        got_keys = None
                        if all(c > 0 for c in exp_cnt.values()):
                            out.append(viol("C03/group-average-raises", f"{tag}: derived group ({dk}) average raised {type(e).__name__}: {e}"))
                    if got_keys is not None and all(c > 0 for c in exp_cnt.values()) and got_keys != nonempty:
                        out.append(viol("C03/group-consumed-once", f"{tag}: derived group ({dk}) average has keys {got_keys} on its second use, expected {nonempty}"))
                    elif got_keys is not None and all(c > 0 for c in exp_cnt.values()):
                        for kk in nonempty:
                            vals = sorted({decode(v) for v in [avg[kk][1, 1, 1]]}) if len(dwant[kk]) == 1 else None
                            exp = np.mean([r.tomo * 1_000_000 + 1_000_000 + r.pos[0] * 10_000 + r.pos[1] * 100 + r.pos[2] for r in dwant[kk]])
                            if not abs(float(avg[kk][1, 1, 1]) - exp) <= 1e-6 * exp + 0.5:
                                out.append(viol("C03/group-average-rows", f"{tag}: derived group ({dk}) key {kk}: centre of the average is {float(avg[kk][1, 1, 1])}, "
                                                f"expected the mean over uids {[r.uid for r in dwant[kk]]} = {exp}"))
                    if got_keys is not None and all(c > 0 for c in exp_cnt.values()) and op["galign"]:
                        tm = gen.smooth_noise(5, (3, 3, 3), sigma=0.6)
                        al = dg.align(tm, max_shifts=1.0)
                        akeys = sorted(kk for kk, _ in al)
                        if akeys != nonempty:
                            out.append(viol("C03/group-align-groups", f"{tag}: derived group ({dk}).align returned groups {akeys}, expected {nonempty}"))
                        else:
                            for kk, sub in al:
                                got_u = sub.molecules.features["uid"].to_list()
                                if got_u != [r.uid for r in dwant[kk]]:
                                    out.append(viol("C03/group-align-rows", f"{tag}: derived group ({dk}).align: group {kk} holds uids {got_u}, the group held {[r.uid for r in dwant[kk]]}"))
                                    break
                                # the aligned molecule stays within max_shifts of the molecule it came from
                                for i, r in enumerate(dwant[kk]):
                                    if np.linalg.norm(sub.molecules.pos[i] - np.asarray(r.pos, dtype=np.float64)) > math.sqrt(3.0) + 1e-3:
                                        out.append(viol("C03/group-align-rows", f"{tag}: derived group ({dk}).align: group {kk} row {i} (uid {r.uid}) moved from {r.pos} to {sub.molecules.pos[i].tolist()}"))
                                        break
                # continue with one of the groups
                pick = sorted(want)[op["pick"] % len(want)]
                new = dict(items1)[pick]
                nm = want[pick]
            else:
                raise HarnessError(name)
        for anc, snap, atag in ancestors:
            unchanged(f"{tag} (ancestor from {atag})", anc, snap)
        if not check_rows(tag, new, nm, ordered=True):
            return out
        if not binned:
            check_subtomograms(tag, new)
        cur, cur_model = new, nm
        ancestors.append((cur, snapshot(cur), tag))

    # per-molecule observations against single-molecule loaders
    n = len(cur_model)
    if n and not binned:
        tm = gen.smooth_noise(7, (3, 3, 3), sigma=0.6)
        q = cur.molecules

        def single(i):
            r = cur_model[i]
            return SubtomogramLoader(tomos[r.tomo], q.subset(i), order=cur.order, output_shape=(3, 3, 3))

        with warnings.catch_warnings():
            warnings.simplefilter("ignore")
            obs = d["obs"]
            tkw = {"tilt": (-50.0, 60.0)} if d.get("tilt") else {}
            if obs == "apply":
                df = cur.apply([lambda a: float(a[1, 1, 1])], schema=["centre"])
                for i in range(n):
                    t, z, y, x = decode(df["centre"][i])
                    if (t - 1, (z, y, x)) != (cur_model[i].tomo, cur_model[i].pos):
                        out.append(viol("C03/apply-row", f"final apply: row {i} is the centre of tomogram {t - 1} {(z, y, x)}, but molecule {i} is uid {cur_model[i].uid} at {cur_model[i].pos}"))
                        break
            elif obs == "score":
                sc = cur.score([tm], **tkw)[0]
                for i in range(n):
                    w = single(i).score([tm], **tkw)[0][0]
                    if not (sc[i] == w or abs(sc[i] - w) <= 1e-4):  # float32 orientations differ in the last bit between loader kinds; a wrong row differs by O(0.1)
                        out.append(viol("C03/score-row", f"final score: row {i} = {sc[i]} but the single-molecule loader of uid {cur_model[i].uid} gives {w}"))
                        break
            elif obs == "align":
                al = cur.align(tm, max_shifts=1.0, **tkw).molecules
                if al.features["uid"].to_list() != [r.uid for r in cur_model]:
                    out.append(viol("C03/align-rows", f"final align: uid column {al.features['uid'].to_list()} != {[r.uid for r in cur_model]}"))
                else:
                    for i in range(n):
                        w = single(i).align(tm, max_shifts=1.0, **tkw).molecules
                        if not (np.allclose(al.pos[i], w.pos[0], atol=1e-4) and abs(float(al.features["score"][i]) - float(w.features["score"][0])) <= 1e-4):
                            out.append(viol("C03/align-row", f"final align: row {i} (uid {cur_model[i].uid}) = pos {al.pos[i].tolist()} score {al.features['score'][i]}, "
                                            f"single-molecule loader gives {w.pos[0].tolist()} / {w.features['score'][0]}"))
                            break
            elif obs == "landscape":
                ld = cur.construct_landscape(tm, max_shifts=1.0, **tkw).compute()
                for i in range(n):
                    w = single(i).construct_landscape(tm, max_shifts=1.0, **tkw).compute()[0]
                    if ld[i].shape != w.shape or not np.allclose(ld[i], w, atol=1e-4):
                        out.append(viol("C03/landscape-row", f"final landscape: row {i} (uid {cur_model[i].uid}) differs from the single-molecule loader"))
                        break
    return out


pos3 = st.lists(st.integers(0, 15), min_size=3, max_size=3)


@st.composite
def op_strategy(draw):
    name = draw(st.sampled_from(["filter", "head", "tail", "sample", "replace-sorted", "replace-sorted", "replace-perm", "replace-perm",
                                 "replace-params", "replace-params", "copy", "binning", "groupby", "groupby", "add_tomogram", "add_tomogram", "add_tomogram"]))
    op = {"op": name}
    if name == "filter":
        op.update(kind=draw(st.sampled_from(["w", "k", "image", "mask"])), thr=float(draw(st.integers(0, 100))), kv=draw(st.integers(0, 2)))
    elif name in ("head", "tail"):
        op.update(n=draw(st.integers(0, 12)))
    elif name == "sample":
        op.update(n=draw(st.integers(0, 12)), seed=draw(st.integers(0, 999)))
    elif name == "replace-sorted":
        op.update(desc=draw(st.booleans()))
    elif name == "replace-perm":
        op.update(keys=draw(st.lists(st.integers(0, 9), min_size=1, max_size=12)))
    elif name == "replace-params":
        op.update(order=draw(st.sampled_from([0, 1])))
    elif name == "add_tomogram":
        op.update(pos=draw(st.lists(pos3, min_size=1, max_size=3)), explicit=draw(st.booleans()), dup_id=draw(st.sampled_from([0, 0, 0, 1, 2])))
    elif name == "groupby":
        op.update(derive=draw(st.sampled_from(["head", "tail", "filter", "none", "sample", "sample"])), thr=float(draw(st.integers(0, 60))),
                  pick=draw(st.integers(0, 2)), galign=draw(st.booleans()))
    return op


@st.composite
def cases(draw):
    ntomo = draw(st.sampled_from([1, 2, 2, 3, 3]))
    mols = [[{"pos": draw(pos3), "k": draw(st.integers(0, 2))} for _ in range(draw(st.integers(1, 5)))] for _ in range(ntomo)]
    return {"ntomo": ntomo, "mols": mols, "route": draw(st.sampled_from(["add_tomogram", "add_tomogram", "from_loaders", "add_loader"])),
            "route1": draw(st.sampled_from(["single", "add_tomogram"])), "explicit_ids": draw(st.booleans()),
            "ids": draw(st.permutations([5, 2, 9, 0, 7]))[:3], "order": draw(st.sampled_from([0, 1])),
            "ops": draw(st.lists(op_strategy(), min_size=0, max_size=6)),
            "obs": draw(st.sampled_from(["apply", "score", "align", "landscape"])), "obs_load": draw(st.booleans()), "obs_i": draw(st.integers(0, 20)),
            "obs_idx": draw(st.lists(st.integers(0, 40), min_size=1, max_size=5)),
            "obs_slice": draw(st.sampled_from([[None, None, None], [1, None, None], [None, -1, None], [None, None, 2], [None, None, -1], [3, 0, -1]])),
            "orient": draw(st.booleans()), "tilt": draw(st.booleans())}


def nontrivial(d):
    names = [o["op"] for o in d["ops"]]
    reorder = any(n in ("replace-sorted", "replace-perm", "sample") for n in names)
    return (d["ntomo"] >= 2 and reorder) or any(o["op"] == "groupby" and o["derive"] != "none" for o in d["ops"])


def labels(d):
    return sorted({f"op:{o['op']}" for o in d["ops"]} | {f"ntomo:{d['ntomo']}", f"route:{d['route'] if d['ntomo'] > 1 else d['route1']}", f"obs:{d['obs']}",
                   "oriented" if d.get("orient") else "identity-orientation", "tilt" if d.get("tilt") else "no-tilt"})


def engines():
    return [Engine("history", judge, strategy=cases(), nontrivial=nontrivial, labels=labels,
                   cases={"quick": 240, "thorough": 5000}, shards={"quick": 8, "thorough": 16},
                   shrink={"quick": True, "thorough": True})]
