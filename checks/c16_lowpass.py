"""C16 - Low-pass filtering is a real, linear, zero-phase Butterworth filter."""
from __future__ import annotations

import warnings

import numpy as np
from hypothesis import strategies as st

from vlib import gen
from vlib.runner import Engine, viol

PROPERTY = "C16"
RULE = ("Hypothesis draws (shape 1..9 per side with parity classes, cutoff class, order 1..4, input kind, "
        "texture seed, linear-combination coefficients); every implementation (acryo._utils, Backend, pipe "
        "converter, alignment-model pre_transform) is compared with a float64 reference "
        "H=1/(1+(|f|/cutoff)^(2*order)) on fftfreq grids; plus an enumerated part: every axis length 1..16 on "
        "each of the three axes x 3 cutoffs x 3 orders. Non-trivial = at least one odd side and an active "
        "cutoff (0 < cutoff < 0.5*sqrt(3)). Distinct = distinct descriptor hash.")
RULE += (" " + 'Also: int16 / uint8 input images. Round 7: negative cutoffs inside (-sqrt(3)/2, 0) (pass-through), and high-pass calls with the same shape / cutoff / order before the low-pass.')
TOLERANCES = {"value": "1e-4 * max|input| (float32 FFT vs float64 reference)",
              "linearity": "2e-4 * scale", "mean": "1e-4 * max|input|"}
ASSUMPTIONS = ["numpy backend only (cupy is not installed)",
               "reference: numpy.fft in float64 on np.fft.fftfreq grids"]


def ref_weight(shape, cutoff, order):
    f2 = sum(g ** 2 for g in np.meshgrid(*[np.fft.fftfreq(n) for n in shape], indexing="ij"))
    with np.errstate(over="ignore", divide="ignore"):
        return 1.0 / (1.0 + (f2 / cutoff ** 2) ** order)


def ref_lowpass(img, cutoff, order):
    img = np.asarray(img, dtype=np.float64)
    if cutoff <= 0 or cutoff >= 0.5 * np.sqrt(3):
        return img
    return np.fft.ifftn(np.fft.fftn(img) * ref_weight(img.shape, cutoff, order)).real


def make_input(kind, seed, shape):
    if kind == "noise":
        return gen.noise(seed, shape)
    if kind == "const":
        return np.full(shape, 1.0 + (seed % 7), dtype=np.float32)
    if kind == "delta":
        a = np.zeros(shape, dtype=np.float32)
        a[tuple(n // 2 for n in shape)] = 1.0
        return a
    if kind == "offset":
        return gen.noise(seed, shape) + 5.0
    if kind in ("int16", "uint8"):
        # integer-valued images (e.g. an int16 MRC volume): the result is still the real-valued Butterworth product
        a = np.round(gen.noise(seed, shape) * 40.0 + (100.0 if kind == "uint8" else 0.0))
        return np.clip(a, 0, 255).astype(np.uint8) if kind == "uint8" else a.astype(np.int16)
    raise ValueError(kind)


_SHARED = []


def implementations(cutoff, order):
    """name -> (real-space fn or None, fourier-space fn or None)"""
    from acryo import _utils
    from acryo.backend import Backend
    from acryo import pipe
    from acryo.alignment import ZNCCAlignment

    be = Backend()
    out = {
        "utils": (lambda x: _utils.lowpass_filter(x, cutoff, order),
                  lambda x: _utils.lowpass_filter_ft(x, cutoff, order)),
        "backend": (lambda x: be.asnumpy(be.lowpass_filter(x, cutoff, order)),
                    lambda x: be.asnumpy(be.lowpass_filter_ft(x, cutoff, order))),
        "pipe": (lambda x: pipe.lowpass_filter(cutoff, order)(x, 1.37), None),
    }
    if not _SHARED:
        _SHARED.append(Backend())
    sb = _SHARED[0]  # one long-lived Backend: weights cached per backend object are re-used between cases
    out["backend[shared]"] = (lambda x: sb.asnumpy(sb.lowpass_filter(x, cutoff, order)),
                              lambda x: sb.asnumpy(sb.lowpass_filter_ft(x, cutoff, order)))
    if order == 2 and cutoff > 0:
        def _model_ft(x):
            m = ZNCCAlignment(np.ones(x.shape, dtype=np.float32), cutoff=cutoff)
            return be.asnumpy(m.pre_transform(be.asarray(x), be))
        out["model"] = (None, _model_ft)
    return out


def judge(d):
    shape = tuple(d["shape"])
    cutoff, order = d["cutoff"], d["order"]
    x = make_input(d["kind"], d["seed"], shape)
    y = make_input("noise", d["seed"] + 1, shape)
    a, b = d["a"], d["b"]
    scale = float(np.abs(x).max()) + 1e-12
    tol = 1e-4 * scale
    ref = ref_lowpass(x, cutoff, order)
    ref_ft = np.fft.fftn(ref)
    tol_ft = 1e-4 * (np.abs(ref_ft).max() + scale)
    out = []
    reals = {}
    with warnings.catch_warnings():
        warnings.simplefilter("ignore")
        if d.get("pre") == "highpass":
            # the high-pass filters share the cached Butterworth weights with the low-pass filters: a preceding
            # high-pass call with the same shape / cutoff / order must not change what the low-pass returns
            from acryo import _utils as _u, pipe as _p
            xf = np.asarray(x, dtype=np.float32)
            _u.highpass_filter(xf, cutoff, order)
            _u.highpass_filter_ft(xf, cutoff, order)
            _p.highpass_filter(cutoff, order)(xf, 1.37)
        for name, (fr, ff) in implementations(cutoff, order).items():
            if fr is not None:
                r = np.asarray(fr(x))
                if r.shape != shape:
                    out.append(viol(f"C16/shape-changed:{name}",
                                    f"{name}: input shape {shape} -> output shape {r.shape}"))
                    continue
                if np.iscomplexobj(r):
                    out.append(viol(f"C16/not-real:{name}", f"{name}: complex output dtype {r.dtype}"))
                    continue
                err = float(np.abs(r.astype(np.float64) - ref).max())
                if not err <= tol:
                    out.append(viol(f"C16/value:{name}", f"{name}: max|out-ref|={err:.3g} > {tol:.3g} "
                                    f"shape={shape} cutoff={cutoff} order={order}", err=err))
                reals[name] = r
                # mean preserved
                dm = abs(float(r.astype(np.float64).mean()) - float(x.astype(np.float64).mean()))
                if not dm <= tol:
                    out.append(viol(f"C16/mean:{name}", f"{name}: mean changed by {dm:.3g}"))
                # linearity
                rz = np.asarray(fr((a * x + b * y).astype(np.float32)))
                ry = np.asarray(fr(y))
                if rz.shape == shape and ry.shape == shape:
                    sc = (abs(a) * scale + abs(b) * float(np.abs(y).max())) + 1e-12
                    le = float(np.abs(rz - (a * r + b * ry)).max())
                    if not le <= 2e-4 * sc:
                        out.append(viol(f"C16/linearity:{name}", f"{name}: |L(ax+by)-aL(x)-bL(y)|={le:.3g}"))
                # identity outside the active range
                if cutoff <= 0 or cutoff >= 0.5 * np.sqrt(3):
                    if not np.array_equal(r, x):
                        out.append(viol(f"C16/identity:{name}", f"{name}: cutoff={cutoff} is not the identity"))
                # zero phase: centred delta -> point symmetric response
                if d["kind"] == "delta" and all(n % 2 == 1 for n in shape):
                    se = float(np.abs(r - r[::-1, ::-1, ::-1]).max())
                    if not se <= tol:
                        out.append(viol(f"C16/zero-phase:{name}", f"{name}: delta response asymmetric by {se:.3g}"))
            if ff is not None:
                f = np.asarray(ff(x))
                if f.shape != shape:
                    out.append(viol(f"C16/ft-shape:{name}", f"{name}: ft shape {f.shape} for input {shape}"))
                    continue
                fe = float(np.abs(f - ref_ft).max())
                if not fe <= tol_ft:
                    out.append(viol(f"C16/ft-value:{name}", f"{name}: max|ft-ref_ft|={fe:.3g} > {tol_ft:.3g} "
                                    f"shape={shape} cutoff={cutoff} order={order}", err=fe))
                if fr is not None and name in reals:
                    ce = float(np.abs(f - np.fft.fftn(reals[name].astype(np.float64))).max())
                    if not ce <= tol_ft:
                        out.append(viol(f"C16/ft-vs-real:{name}",
                                        f"{name}: lowpass_filter_ft != fftn(lowpass_filter): {ce:.3g}"))
    names = sorted(reals)
    for i in range(len(names)):
        for j in range(i + 1, len(names)):
            pe = float(np.abs(reals[names[i]] - reals[names[j]]).max())
            if not pe <= tol:
                out.append(viol("C16/implementations-disagree",
                                f"{names[i]} vs {names[j]} differ by {pe:.3g}"))
    return out


cutoffs = st.one_of(
    st.sampled_from([0.0, -1.0, -0.5, -0.3, -0.05, 1e-3, 0.866, 0.87, 1.0, 5.0]),
    st.floats(0.02, 0.86).map(lambda v: round(v, 4)),
    st.floats(0.02, 0.86).map(lambda v: round(v, 4)),
)


@st.composite
def cases(draw):
    return {
        "shape": draw(gen.box_shapes(1, 9)),
        "cutoff": draw(cutoffs),
        "order": draw(st.integers(1, 4)),
        "pre": draw(st.sampled_from(["none", "none", "highpass"])),
        "kind": draw(st.sampled_from(["noise", "noise", "const", "delta", "offset", "int16", "uint8"])),
        "seed": draw(gen.seeds),
        "a": draw(st.floats(-3, 3).map(lambda v: round(v, 3))),
        "b": draw(st.floats(-3, 3).map(lambda v: round(v, 3))),
    }


def active(d):
    return 0 < d["cutoff"] < 0.5 * np.sqrt(3)


def nontrivial(d):
    return any(n % 2 for n in d["shape"]) and active(d)


def labels(d):
    c = d["cutoff"]
    cl = "cutoff:nonpositive" if c <= 0 else "cutoff:beyond-nyquist-diag" if c >= 0.5 * np.sqrt(3) else \
        "cutoff:tiny" if c < 0.01 else "cutoff:active"
    return gen.parity_class(d["shape"]) + [cl, f"order:{d['order']}", f"kind:{d['kind']}",
                                           "lastaxis:odd" if d["shape"][2] % 2 else "lastaxis:even"]


def axis_grid(tier):
    for n in range(1, 17):
        for ax in range(3):
            shape = [1, 1, 1]
            shape[ax] = n
            for cutoff in (0.1, 0.3, 0.6):
                for order in (1, 2, 3):
                    yield {"shape": shape, "cutoff": cutoff, "order": order, "kind": "noise",
                           "seed": 7 * n + ax, "a": 1.5, "b": -0.5}
    for n in range(2, 17):
        for cutoff in (0.25,):
            yield {"shape": [n, n + 1 if n < 16 else n, max(1, n - 1)], "cutoff": cutoff, "order": 2,
                   "kind": "noise", "seed": n, "a": 1.0, "b": 1.0}


def engines():
    return [
        Engine("random", judge, strategy=cases(), nontrivial=nontrivial, labels=labels,
               cases={"quick": 400, "thorough": 40000}, shards={"quick": 4, "thorough": 16}),
        Engine("axis-grid", judge, enumerate=axis_grid, nontrivial=nontrivial, labels=labels,
               shards={"quick": 2, "thorough": 4}),
    ]
