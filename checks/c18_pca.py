"""C18 - PCA classification matches exact PCA and labels stay attached to their molecules."""
from __future__ import annotations

import warnings

import numpy as np
from hypothesis import strategies as st

from vlib import gen
from vlib.runner import Engine, viol

PROPERTY = "C18"
RULE = ("Engine 'pca': Hypothesis draws an image stack (N in k+1..40 images of shape 3..9 per side; data class planted "
        "clusters / low rank / full-rank noise), a mask (none / binary / soft), n_components k in 1..4, n_clusters, a "
        "seed and a dask chunking of the stack along any axis (or a numpy stack); PcaClassifier is compared with an "
        "exact numpy SVD of the centred, masked matrix: singular values, components up to sign (as subspaces where the "
        "spectral gap is < 1%), projections (get_transform of the stack and of row subsets; transform of a subset, a single image "
        "and a fresh batch against (batch*mask - training mean) @ components.T; predict of training images), independence of "
        "chunking, and planted clusters recovered up to renaming. "
        "Engine 'loader': loader.classify on tomograms with planted, interleaved particle classes: exactly one new "
        "integer column, row i <-> molecule i, nothing else changed. Non-trivial = > 1 chunk along the sample axis, "
        "> 500 features, or N > k + 10.")
RULE += (" " + 'Also: int16 stacks, boolean masks, row subsets in any order with repeats. Round 7: data class `unbalanced` (150-170 images, one abundant and two 2-image classes 17 sigma apart, which k-means only separates with its several initialisations); loader engine with molecules in random orientations and a tilt range: the singular values must be those of the wedge-masked differences computed molecule by molecule with a fresh model.')
TOLERANCES = {"singular values": "rtol 1e-3 (float32 data)", "components": "|cos| >= 1 - 1e-3 (gap >= 1%)",
              "projections": "5e-4 * sigma_1 (self-consistency with the reported components; 2e-3 against the exact SVD)", "orthonormality": "1e-4"}
ASSUMPTIONS = ["k-means separation is only asserted for planted clusters whose centres are >= 12 noise sigmas apart"]


def make_stack(d):
    shape = tuple(d["shape"])
    n = d["n"]
    F = int(np.prod(shape))
    rng = np.random.Generator(np.random.Philox(d["seed"]))
    cls = d["data"]
    labels = None
    if cls == "clusters":
        nc = d["n_clusters"]
        protos = [gen.smooth_noise(d["seed"] + 100 + i, shape, sigma=0.8).astype(np.float64) * 6.0 for i in range(nc)]
        labels = np.array([i % nc for i in range(n)])
        X = np.stack([protos[l] for l in labels]) + 0.25 * rng.standard_normal((n,) + shape)
    elif cls == "unbalanced":
        # one abundant class and two rare ones (2 images each), centres 17 noise sigmas apart: a regime in which k-means
        # needs its several initialisations (a single k-means++ start merges or splits groups in about a third of the cases,
        # ten starts failed in none of 240 trials)
        nc = d["n_clusters"]
        v = rng.standard_normal((nc, F))
        protos = [(17.0 * v[i] / np.linalg.norm(v[i])).reshape(shape) for i in range(nc)]
        labels = np.zeros(n, dtype=int)
        for c in range(1, nc):
            at = (c * n) // (nc + 1)
            labels[at:at + 2] = c
        X = np.stack([protos[l] for l in labels]) + rng.standard_normal((n,) + shape)
    elif cls == "lowrank":
        r = min(d["k"] + 2, n - 1, F)
        basis = rng.standard_normal((r, F))
        coef = rng.standard_normal((n, r)) * np.linspace(5, 1, r)
        X = (coef @ basis).reshape((n,) + shape) + 1e-3 * rng.standard_normal((n,) + shape)
    else:
        X = rng.standard_normal((n,) + shape) * np.linspace(1.0, 3.0, n)[:, None, None, None]
    if d.get("stack_dtype", "float32") == "int16":
        # integer-valued stack (e.g. raw int16 sub-volumes): PCA of exactly these values
        return np.round(X * 4.0).astype(np.int16), labels
    return X.astype(np.float32), labels


def make_mask(kind, shape):
    if kind == "none":
        return None
    grids = np.meshgrid(*[(np.arange(m) - (m - 1) / 2) / ((m - 1) / 2 + 0.5) for m in shape], indexing="ij")
    r = np.sqrt(sum(g ** 2 for g in grids))
    if kind == "binary":
        return (r <= 0.95).astype(np.float32)
    if kind == "binary-bool":
        return r <= 0.95
    return (1 / (1 + np.exp((r - 0.8) / 0.1))).astype(np.float32)


def exact_pca(X, mask, k):
    n = X.shape[0]
    M = X.astype(np.float64)
    if mask is not None:
        M = M * mask.astype(np.float64)
    M = M.reshape(n, -1)
    mean = M.mean(0)
    C = M - mean
    U, S, Vt = np.linalg.svd(C, full_matrices=False)
    return S, Vt, C, mean


def run_classifier(X, mask, d, chunks):
    from acryo.classification import PcaClassifier
    import dask.array as da

    stack = X if chunks is None else da.from_array(X, chunks=chunks)
    clf = PcaClassifier(stack, mask, n_components=d["k"], n_clusters=d["n_clusters"], seed=d["kseed"])
    clf.run()
    return clf


def judge_pca(d):
    out = []
    X, planted_labels = make_stack(d)
    shape = tuple(d["shape"])
    mask = make_mask(d["mask"], shape)
    k = d["k"]
    S, Vt, C, mean = exact_pca(X, mask, k)
    chunks = None if d["chunks"] is None else tuple(tuple(c) for c in d["chunks"])
    tag = f"N={d['n']} shape={shape} data={d['data']} mask={d['mask']} k={k} chunks={d['chunks']}"
    with warnings.catch_warnings():
        warnings.simplefilter("ignore")
        try:
            clf = run_classifier(X, mask, d, chunks)
        except Exception as e:  # noqa: BLE001
            import traceback
            if not any("/acryo/" in f.filename for f in traceback.extract_tb(e.__traceback__)):
                raise
            out.append(viol(f"C18/raises:{type(e).__name__}", f"{tag}: PcaClassifier.run raised {type(e).__name__}: {str(e)[:150]}"))
            return out
        pca = clf.pca
        comps = np.asarray(pca.components_, dtype=np.float64)
        sv = np.asarray(pca.singular_values_, dtype=np.float64)
        tr = np.asarray(clf.get_transform(), dtype=np.float64)
    if comps.shape != (k, C.shape[1]) or sv.shape != (k,) or tr.shape != (d["n"], k):
        out.append(viol("C18/shapes", f"{tag}: components {comps.shape}, singular values {sv.shape}, transform {tr.shape}"))
        return out
    s1 = S[0] + 1e-12
    G = comps @ comps.T
    if not np.abs(G - np.eye(k)).max() <= 1e-3:
        out.append(viol("C18/not-orthonormal", f"{tag}: components are not orthonormal (max dev {np.abs(G - np.eye(k)).max():.3g})"))
    want_tr = C @ comps.T
    if not np.abs(tr - want_tr).max() <= 5e-4 * s1:
        out.append(viol("C18/transform-inconsistent", f"{tag}: get_transform() != (X - mean) @ components.T (max dev {np.abs(tr - want_tr).max():.3g}, sigma1 {s1:.3g})"))
    if not np.all(sv <= S[:k] * (1 + 1e-3) + 1e-4 * s1):
        out.append(viol("C18/singular-values-too-large", f"{tag}: singular values {sv.tolist()} exceed the exact ones {S[:k].tolist()}"))
    # exactness
    sv_err = np.abs(sv - S[:k]) / s1
    if not sv_err.max() <= 1e-3:
        out.append(viol("C18/singular-values", f"{tag}: singular values {np.round(sv, 4).tolist()} vs exact {np.round(S[:k], 4).tolist()}", err=float(sv_err.max())))
    # components up to sign / as subspaces for near-degenerate groups
    i = 0
    Sx = np.append(S, 0.0)
    while i < k:
        j = i
        while j + 1 < len(S) and (Sx[j] - Sx[j + 1]) <= 0.01 * s1:
            j += 1
        hi = j + 1
        if hi <= k:
            # subspace spanned by exact components i..j must contain acryo's components i..j
            P = Vt[i:hi]
            resid = comps[i:hi] - (comps[i:hi] @ P.T) @ P
            dev = float(np.linalg.norm(resid, axis=1).max())
            if not dev <= 5e-2 if hi - i > 1 else not dev <= np.sqrt(2e-3):
                out.append(viol("C18/components", f"{tag}: components {i}..{j} leave the exact principal subspace by {dev:.3g} "
                                f"(sigma {np.round(S[i:hi], 3).tolist()})", err=dev))
                break
        i = hi
    # planted clusters
    if planted_labels is not None and clf.labels is not None:
        lab = np.asarray(clf.labels)
        if lab.shape != (d["n"],):
            out.append(viol("C18/label-shape", f"{tag}: labels shape {lab.shape}"))
        elif d["n_clusters"] <= k + 1:
            mapping = {}
            okc = True
            for a, b in zip(planted_labels, lab):
                if mapping.setdefault(int(a), int(b)) != int(b):
                    okc = False
            if not okc or len(set(mapping.values())) != len(mapping):
                out.append(viol("C18/clusters-not-recovered", f"{tag}: planted classes {planted_labels.tolist()} labelled {lab.tolist()}"))
    # projections of images other than the whole training stack: a subset, one image, a fresh batch
    import dask.array as da
    rng = np.random.Generator(np.random.Philox(d["seed"] + 77))
    sub = [int(i) % d["n"] for i in d.get("sub", [0])]  # any order, repeats allowed
    fresh = (X[sub].astype(np.float64) * 0.5 + 0.7 * rng.standard_normal((len(sub),) + shape) + 0.3).astype(np.float32)
    mk = np.ones(shape) if mask is None else mask.astype(np.float64)
    for name, batch in (("subset", X[sub]), ("single", X[sub[:1]]), ("fresh", fresh)):
        with warnings.catch_warnings():
            warnings.simplefilter("ignore")
            try:
                got = np.asarray(clf.transform(da.from_array(batch, chunks=(1,) + shape if d.get("sub_chunked") else batch.shape)), dtype=np.float64)
            except Exception as e:  # noqa: BLE001
                import traceback
                if not any("/acryo/" in f.filename for f in traceback.extract_tb(e.__traceback__)):
                    raise
                out.append(viol(f"C18/transform-raises:{type(e).__name__}", f"{tag}: transform({name} batch of {len(batch)}) raised {type(e).__name__}: {str(e)[:150]}"))
                break
        want_b = ((batch.astype(np.float64) * mk).reshape(len(batch), -1) - mean) @ comps.T
        if got.shape != want_b.shape or not np.abs(got - want_b).max() <= 5e-4 * s1:
            dev = float(np.abs(got - want_b).max()) if got.shape == want_b.shape else float("inf")
            out.append(viol(f"C18/transform-new-images:{name}", f"{tag}: transform({name} batch, rows {sub}) != (batch*mask - training mean) @ components.T "
                            f"(max dev {dev:.3g}, sigma1 {s1:.3g})"))
            break
    with warnings.catch_warnings():
        warnings.simplefilter("ignore")
        tr_sub = np.asarray(clf.get_transform(labels=list(sub)), dtype=np.float64)
        if tr_sub.shape != (len(sub), k) or not np.abs(tr_sub - tr[sub]).max() <= 1e-4 * s1:
            out.append(viol("C18/get-transform-subset", f"{tag}: get_transform(labels={sub}) is not rows {sub} of get_transform()"))
        if planted_labels is not None and clf.labels is not None and d["n_clusters"] <= k + 1 and not out:
            pred = np.asarray(clf.predict(da.from_array(X[sub], chunks=X[sub].shape)))
            if pred.shape != (len(sub),) or not np.array_equal(pred, np.asarray(clf.labels)[sub]):
                out.append(viol("C18/predict-training-images", f"{tag}: predict(images {sub}) = {pred.tolist()} but their labels are {np.asarray(clf.labels)[sub].tolist()}"))
    # independence of chunking
    if chunks is not None:
        with warnings.catch_warnings():
            warnings.simplefilter("ignore")
            try:
                clf2 = run_classifier(X, mask, d, None)
            except Exception:  # noqa: BLE001
                clf2 = None
        if clf2 is not None:
            sv2 = np.asarray(clf2.pca.singular_values_, dtype=np.float64)
            if not np.abs(sv2 - sv).max() <= 1e-3 * s1:
                out.append(viol("C18/chunking-changes-result", f"{tag}: singular values {sv.tolist()} (chunked) vs {sv2.tolist()} (numpy stack)"))
    return out


def judge_loader(d):
    from acryo import SubtomogramLoader, Molecules
    from scipy.spatial.transform import Rotation
    import polars as pl

    out = []
    shape = tuple(d["shape"])
    n = d["n"]
    S = max(shape) + 8
    nc = d["n_clusters"]
    protos = [gen.smooth_noise(d["seed"] + 50 + i, shape, sigma=0.9) * 8.0 for i in range(nc)]
    tomo = 0.2 * gen.noise(d["seed"], (S, S, S * n))
    classes = [d["classes"][i % len(d["classes"])] % nc for i in range(n)]
    # make sure every class occurs
    for c in range(nc):
        classes[c % n] = c
    lo = [(S - s) // 2 for s in shape]
    for i in range(n):
        tomo[lo[0]:lo[0] + shape[0], lo[1]:lo[1] + shape[1], i * S + lo[2]:i * S + lo[2] + shape[2]] += protos[classes[i]]
    pos = np.array([[lo[0] + (shape[0] - 1) / 2, lo[1] + (shape[1] - 1) / 2, i * S + lo[2] + (shape[2] - 1) / 2] for i in range(n)])
    scale = d["scale"]
    feats = pl.DataFrame({"uid": list(range(n)), "w": [1.5 * i for i in range(n)]})
    rotated = bool(d.get("rotated"))
    if rotated:
        # molecules in different orientations (each sees its own missing wedge); the planted classes are then not expected
        # to be recovered, the PCA input itself is checked instead
        rots = Rotation.from_rotvec(np.random.default_rng(d["seed"]).normal(size=(n, 3)) * 0.9)
        mole = Molecules(pos * scale, rots, features=feats)
    else:
        mole = Molecules(pos * scale, features=feats)
    loader = SubtomogramLoader(tomo.astype(np.float32), mole, order=1, scale=scale, output_shape=shape)
    before = (mole.pos.copy(), mole.quaternion().copy(), mole.features.clone())
    tag = f"n={n} shape={shape} classes={classes} n_clusters={nc} label_name={d['label_name']}"
    with warnings.catch_warnings():
        warnings.simplefilter("ignore")
        res = loader.classify(n_components=d["k"], n_clusters=nc, seed=d["kseed"], label_name=d["label_name"],
                              tilt=tuple(d["tilt"]) if d["tilt"] else None)
    new = res.loader.molecules
    if not (np.array_equal(loader.molecules.pos, before[0]) and np.array_equal(loader.molecules.quaternion(), before[1])
            and loader.molecules.features.equals(before[2])):
        out.append(viol("C18/parent-modified", f"{tag}: classify modified the parent loader's molecules"))
    if d["tilt"]:
        # the PCA input is one wedge-masked difference per molecule, each with the wedge of its own orientation: the singular
        # values must be those of the stack built molecule by molecule with a fresh model each (nothing carried over from
        # the molecule processed before)
        from acryo.alignment import ZNCCAlignment
        with warnings.catch_warnings():
            warnings.simplefilter("ignore")
            avg = loader.average(shape)
            quats = loader.molecules.quaternion()
            D = np.stack([np.asarray(ZNCCAlignment(avg, None, cutoff=0.5, tilt=tuple(d["tilt"])).masked_difference(loader.load(i), quats[i]),
                                     dtype=np.float64).ravel() for i in range(n)])
        D = D - D.mean(axis=0, keepdims=True)
        want_sv = np.linalg.svd(D, compute_uv=False)[: d["k"]]
        got_sv = np.asarray(res.classifier.pca.singular_values_, dtype=np.float64)
        if got_sv.shape != want_sv.shape or not np.abs(got_sv - want_sv).max() <= 2e-3 * (want_sv.max() + 1e-12):
            out.append(viol("C18/loader-pca-input", f"{tag} tilt={d['tilt']} rotated={rotated}: singular values {np.round(got_sv, 4).tolist()} but the "
                            f"per-molecule wedge-masked differences give {np.round(want_sv, 4).tolist()}"))
    if len(new) != n or not np.array_equal(new.pos, before[0]) or not np.allclose(new.quaternion(), before[1]):
        out.append(viol("C18/molecules-changed", f"{tag}: positions/rotations changed by classify"))
        return out
    cols = new.features.columns
    if sorted(cols) != sorted(["uid", "w", d["label_name"]]):
        out.append(viol("C18/columns", f"{tag}: feature columns after classify: {cols}"))
        return out
    if not new.features.select(["uid", "w"]).equals(before[2]):
        out.append(viol("C18/features-changed", f"{tag}: other features changed"))
    lab = new.features[d["label_name"]]
    if not lab.dtype.is_integer():
        out.append(viol("C18/label-dtype", f"{tag}: label dtype {lab.dtype}"))
    lab = lab.to_list()
    mapping, ok = {}, True
    for a, b in zip(classes, lab):
        if mapping.setdefault(a, b) != b:
            ok = False
    if rotated:
        return out
    if not ok or len(set(mapping.values())) != len(mapping):
        out.append(viol("C18/labels-not-in-molecule-order", f"{tag}: planted classes {classes} but labels {lab}"))
    return out


@st.composite
def pca_cases(draw):
    k = draw(st.integers(1, 4))
    shape = draw(gen.box_shapes(3, 9))
    n = draw(st.one_of(st.integers(k + 1, k + 8), st.integers(k + 1, 40)))
    n = max(n, 3)  # k-means needs N >= n_clusters
    data = draw(st.sampled_from(["clusters", "clusters", "lowrank", "lowrank", "noise", "noise", "unbalanced", "unbalanced"]))
    if data == "unbalanced":
        return {"k": draw(st.integers(2, 4)), "shape": [3, 3, 3], "n": draw(st.integers(150, 170)), "data": data, "n_clusters": 3,
                "seed": draw(gen.seeds), "kseed": draw(st.integers(0, 99)), "mask": "none",
                "chunks": None,
                "sub": draw(st.lists(st.integers(0, 39), min_size=1, max_size=6)), "sub_chunked": draw(st.booleans()), "stack_dtype": "float32"}
    nclu = draw(st.integers(2, 3))
    if data == "clusters":
        n = max(n, 2 * nclu)
    chunks = None
    if draw(st.sampled_from([True, True, False])):
        chunks = draw(gen.chunkings([n] + shape, min_chunk=1))
    return {"k": k, "shape": shape, "n": n, "data": data, "n_clusters": nclu, "seed": draw(gen.seeds), "kseed": draw(st.integers(0, 99)),
            "mask": draw(st.sampled_from(["none", "binary", "soft", "binary-bool"])), "chunks": chunks,
            "sub": draw(st.lists(st.integers(0, 39), min_size=1, max_size=6)), "sub_chunked": draw(st.booleans()),
            "stack_dtype": draw(st.sampled_from(["float32", "float32", "float32", "int16"]))}


@st.composite
def loader_cases(draw):
    nclu = draw(st.integers(2, 3))
    return {"shape": draw(gen.box_shapes(4, 7)), "n": draw(st.integers(2 * nclu, 10)), "n_clusters": nclu, "k": draw(st.integers(2, 3)),
            "seed": draw(gen.seeds), "kseed": draw(st.integers(0, 99)), "scale": draw(st.sampled_from([1.0, 0.5, 1.37])),
            "classes": draw(st.lists(st.integers(0, 2), min_size=3, max_size=10)),
            "label_name": draw(st.sampled_from(["cluster", "my-class"])), "tilt": draw(st.sampled_from([None, None, [-60.0, 60.0], [-40.0, 50.0]])), "rotated": draw(st.booleans())}


def nontrivial(d):
    F = int(np.prod(d["shape"]))
    multi = d.get("chunks") is not None and len(d["chunks"][0]) > 1
    return multi or F > 500 or d["n"] > d["k"] + 10


def labels(d):
    F = int(np.prod(d["shape"]))
    ch = d["chunks"]
    return [f"data:{d['data']}", f"k:{d['k']}", "features>500" if F > 500 else "features<=500", f"mask:{d['mask']}",
            "numpy-stack" if ch is None else ("sample-chunks>1" if len(ch[0]) > 1 else "sample-chunks=1"),
            "numpy-stack" if ch is None else ("pixel-chunks>1" if any(len(c) > 1 for c in ch[1:]) else "pixel-chunks=1")]


def engines():
    return [
        Engine("pca", judge_pca, strategy=pca_cases(), nontrivial=nontrivial, labels=labels,
               cases={"quick": 100, "thorough": 3000}, shards={"quick": 8, "thorough": 16}, shrink={"quick": False, "thorough": True}),
        Engine("loader", judge_loader, strategy=loader_cases(), nontrivial=lambda d: True,
               labels=lambda d: [f"n_clusters:{d['n_clusters']}", "tilt" if d["tilt"] else "no-tilt"],
               cases={"quick": 30, "thorough": 600}, shards={"quick": 6, "thorough": 16}, shrink={"quick": False, "thorough": True}),
    ]
