"""C07 - Correlation scores mean what they say."""
from __future__ import annotations

import math
import warnings

import numpy as np
from hypothesis import strategies as st
from scipy.spatial.transform import Rotation

from vlib import gen, ref, planted
from vlib.runner import Engine, viol
from checks import c04_shift

PROPERTY = "C07"
RULE = ("Engine 'score': Hypothesis draws an image pair (correlated with drawn SNR / unrelated / identical / negated), "
        "box 4..14 per side (parity classes), mask none/binary/soft, cutoff, tilt model with a molecule quaternion, "
        "gain a in (1e-3, 1e3) and offset b; ZNCC/NCC scores are compared with a float64 reference pipeline "
        "(mask -> Butterworth -> the model's own wedge mask -> inverse FFT -> Pearson / uncentred cosine), range, "
        "identity = 1, gain/offset invariance, and score == landscape centre == zero-range alignment score (ZNCC, "
        "FSC). Engine 'peak': displaced copies with mild noise; arg-max of landscape(upsample=u) vs the shift reported "
        "by align, for all four models. Engine 'loader': loader.score / construct_landscape row i vs the model applied "
        "to subtomogram i. Non-trivial = mask or cutoff or tilt present, or a non-cubic / odd box.")
RULE += (" " + "Also: zero-range alignment of 2-3 template models against the single-template scores, and engine 'peak-wide' (landscapes for ranges from half the box to beyond it). Round 7: landscapes (upsample 1-3) of 2-3 template models against the single-template landscapes, candidate by candidate.")
TOLERANCES = {"score vs reference": "2e-4", "range": "1e-5", "agreement score/landscape/align": "2e-4",
              "landscape arg-max vs align shift": "0.5/u + 0.2 px (FSC: 0.5/u + 0.5)"}
ASSUMPTIONS = ["the wedge mask used by the reference is the model's own get_missing_wedge_mask (its geometry is C08's business)",
               "peaks are planted >= 0.6 px inside the search range and the noise is mild (unique maximum)"]


def get_model(name):
    return c04_shift.get_model(name)


def make_mask(kind, shape, r):
    if kind == "none":
        return None
    grids = np.meshgrid(*[(np.arange(n) - (n - 1) / 2) / ((n - 1) / 2 + 0.5) for n in shape], indexing="ij")
    rr = np.sqrt(sum(g ** 2 for g in grids))
    if kind == "binary":
        return (rr <= r).astype(np.float32)
    return (1.0 / (1.0 + np.exp((rr - r) / 0.1))).astype(np.float32)


def make_pair(d):
    shape = tuple(d["shape"])
    t = gen.smooth_noise(d["seed"], shape, sigma=d["sigma"])
    k = d["pair"]
    if k == "identical":
        s = t.copy()
    elif k == "negated":
        s = -t
    elif k == "unrelated":
        s = gen.smooth_noise(d["seed"] + 101, shape, sigma=d["sigma"])
    else:
        s = t + d["noise"] * gen.noise(d["seed"] + 7, shape)
    return t.astype(np.float32), s.astype(np.float32)


def reference_images(model, tmpl, sub, mask, cutoff, quat):
    shape = tmpl.shape
    m = np.ones(shape) if mask is None else mask.astype(np.float64)
    W = ref.butterworth(shape, cutoff)
    mw = np.asarray(model.get_missing_wedge_mask(quat)).astype(np.float64)
    a = np.fft.ifftn(np.fft.fftn(sub.astype(np.float64) * m) * W * mw).real
    b = np.fft.ifftn(np.fft.fftn(tmpl.astype(np.float64) * m) * W * mw).real
    return a, b


def judge_score(d):
    out = []
    shape = tuple(d["shape"])
    tmpl, sub = make_pair(d)
    mask = make_mask(d["mask"], shape, d["mask_r"])
    kw = {}
    if d["cutoff"] is not None:
        kw["cutoff"] = d["cutoff"]
    tilt = None
    if d["tilt"] is not None:
        from acryo.tilt import single_axis
        tilt = single_axis(tuple(d["tilt"]["range"]), d["tilt"]["axis"]) if d["tilt_as"] == "model" else tuple(d["tilt"]["range"])
        kw["tilt"] = tilt
    quat = Rotation.from_rotvec(d["rot"]["rv"]).as_quat().astype(np.float32)
    pos = np.zeros(3, dtype=np.float32)
    tag = f"shape={shape} pair={d['pair']} mask={d['mask']} cutoff={d['cutoff']} tilt={d['tilt']} rot={d['rot']['cls']}"
    with warnings.catch_warnings():
        warnings.simplefilter("ignore")
        for name in ("ZNCC", "NCC"):
            model = get_model(name)(tmpl, mask, **kw)
            sc = float(model.score(sub, quat, pos))
            a, b = reference_images(model, tmpl, sub, mask, d["cutoff"], quat)
            if float(np.abs(a).max()) < 1e-9 or float(np.abs(b).max()) < 1e-9:
                continue
            want = ref.pearson(a, b) if name == "ZNCC" else ref.cosine(a, b)
            if not abs(sc - want) <= 2e-4:
                out.append(viol(f"C07/score-vs-reference:{name}", f"{name} {tag}: score {sc:.6f}, reference {want:.6f}", err=abs(sc - want)))
            if not (-1 - 1e-5 <= sc <= 1 + 1e-5):
                out.append(viol(f"C07/range:{name}", f"{name} {tag}: score {sc}"))
            if d["pair"] == "identical" and not abs(sc - 1) <= 1e-4:
                out.append(viol(f"C07/identical-not-1:{name}", f"{name} {tag}: score {sc:.6f} for identical images"))
            # the same model object asked again after a call with another orientation (per-call state must not leak)
            q2 = Rotation.from_rotvec(d["rot2"]["rv"]).as_quat().astype(np.float32) if "rot2" in d else quat
            s_other = float(model.score(sub, q2, pos))
            a2, b2 = reference_images(model, tmpl, sub, mask, d["cutoff"], q2)
            if float(np.abs(a2).max()) > 1e-9 and float(np.abs(b2).max()) > 1e-9:
                w2 = ref.pearson(a2, b2) if name == "ZNCC" else ref.cosine(a2, b2)
                if not abs(s_other - w2) <= 2e-4:
                    out.append(viol(f"C07/score-vs-reference:{name}", f"{name} {tag}: second call with another orientation: score {s_other:.6f}, reference {w2:.6f}"))
            s_again = float(model.score(sub, quat, pos))
            if not abs(s_again - sc) <= 1e-6:
                out.append(viol(f"C07/repeat-call-differs:{name}", f"{name} {tag}: the same score call gave {sc:.6f} and then {s_again:.6f} after a call with another orientation"))
            # gain invariance
            sg = float(model.score((sub * d["gain"]).astype(np.float32), quat, pos))
            if not abs(sg - sc) <= 2e-4:
                out.append(viol(f"C07/gain-invariance:{name}", f"{name} {tag}: score {sc:.6f} -> {sg:.6f} after gain {d['gain']}"))
            if name == "ZNCC" and d["mask"] == "none":
                so = float(model.score((sub + d["offset"]).astype(np.float32), quat, pos))
                if not abs(so - sc) <= 3e-4:
                    out.append(viol("C07/offset-invariance:ZNCC", f"ZNCC {tag}: score {sc:.6f} -> {so:.6f} after offset {d['offset']}"))
        # another cutoff for the same box in the same process (filter weights are cached per shape / cutoff)
        if d["cutoff"] is not None:
            c2 = [c for c in (0.2, 0.45, 0.7, 0.33) if abs(c - d["cutoff"]) > 1e-9][d["seed"] % 3]
            kw2 = dict(kw)
            kw2["cutoff"] = c2
            model2 = get_model("ZNCC")(tmpl, mask, **kw2)
            sc2 = float(model2.score(sub, quat, pos))
            a2, b2 = reference_images(model2, tmpl, sub, mask, c2, quat)
            if float(np.abs(a2).max()) > 1e-9 and float(np.abs(b2).max()) > 1e-9:
                w2 = ref.pearson(a2, b2)
                if not abs(sc2 - w2) <= 2e-4:
                    out.append(viol("C07/score-vs-reference:second-cutoff", f"ZNCC {tag}: a second model with cutoff {c2} on the same box scores {sc2:.6f}, reference {w2:.6f}"))
        # agreement score / landscape centre / zero-range alignment (the normalised models named by the property: ZNCC, FSC)
        for name in ("ZNCC", "FSC"):
            if name == "FSC" and max(shape) > 10:
                continue
            model = get_model(name)(tmpl, mask, **kw)
            sc = float(model.score(sub, quat, pos))
            if not np.isfinite(sc):
                out.append(viol(f"C07/score-not-finite:{name}", f"{name} {tag}: score {sc}"))
                continue
            al = float(model.align(sub, (0.0, 0.0, 0.0), quaternion=quat, pos=pos).score)
            if not abs(al - sc) <= 2e-4:
                out.append(viol(f"C07/align0-vs-score:{name}", f"{name} {tag}: score {sc:.6f} but zero-range align score {al:.6f}"))
            m = d["lmax"]
            lds = np.asarray(model.landscape(sub, (m, m, m), quaternion=quat, pos=pos))
            if lds.ndim != 3 or any(s % 2 == 0 for s in lds.shape):
                out.append(viol(f"C07/landscape-shape:{name}", f"{name} {tag}: landscape shape {lds.shape} for max_shifts {m}"))
                continue
            ctr = float(lds[tuple(s // 2 for s in lds.shape)])
            if not abs(ctr - sc) <= 2e-4:
                out.append(viol(f"C07/landscape-centre-vs-score:{name}", f"{name} {tag}: score {sc:.6f} but landscape centre {ctr:.6f} (shape {lds.shape})"))
        # the same template inside a model that holds several templates (no rotation search): the zero-range alignment score of
        # candidate j is the single-template score of template j, and a sub-volume identical to a template scores 1
        others = [gen.smooth_noise(d["seed"] + 11 + i, shape, sigma=0.8) for i in range(d.get("n_other", 0))]
        if others:
            model1 = get_model("ZNCC")(tmpl, mask, **kw)
            s1 = float(model1.score(sub, quat, pos))
            jpos = d.get("j_pos", 0) % (len(others) + 1)
            tl = others[:jpos] + [tmpl] + others[jpos:]
            singles = [float(get_model("ZNCC")(t, mask, **kw).score(sub, quat, pos)) for t in tl]
            modelT = get_model("ZNCC")(tl, mask, **kw)
            r = modelT.align(sub, (0.0, 0.0, 0.0), quaternion=quat, pos=pos)
            best = int(np.argmax(singles))
            if np.isfinite(s1) and not abs(float(r.score) - max(singles)) <= 3e-4:
                out.append(viol("C07/multi-template-score", f"ZNCC {tag}: {len(tl)}-template model: zero-range align score {float(r.score):.6f} (label {int(r.label)}) "
                                f"but the best single-template score is {max(singles):.6f} (template {best})"))
            # the landscape of candidate j of the several-template model is the landscape of the single-template model j,
            # also when it is up-sampled (candidates are interpolated independently of each other)
            u = 1 + d["seed"] % 3
            m = d["lmax"]
            ldT = np.asarray(modelT.landscape(sub, (m, m, m), quaternion=quat, pos=pos, upsample=u))
            ld1 = [np.asarray(get_model("ZNCC")(t, mask, **kw).landscape(sub, (m, m, m), quaternion=quat, pos=pos, upsample=u)) for t in tl]
            if ldT.shape != (len(tl),) + ld1[0].shape:
                out.append(viol("C07/multi-template-landscape-shape", f"ZNCC {tag}: {len(tl)}-template landscape(upsample={u}) has shape {ldT.shape}, single-template {ld1[0].shape}"))
            else:
                e = max(float(np.abs(ldT[j] - ld1[j]).max()) for j in range(len(tl)))
                if np.isfinite(s1) and not e <= 5e-4:
                    out.append(viol("C07/multi-template-landscape", f"ZNCC {tag}: {len(tl)}-template landscape(upsample={u}) differs from the single-template landscapes by {e:.3g}"))
            if d["pair"] == "identical" and not abs(float(r.score) - 1) <= 1e-3:
                out.append(viol("C07/multi-template-identical-not-1", f"ZNCC {tag}: {len(tl)}-template model scores {float(r.score):.6f} for a sub-volume identical to template {jpos}"))
    return out


def judge_peak(d):
    """landscape arg-max vs reported shift on planted peaks."""
    out = []
    tmpl, img = c04_shift.make_pair(d)
    # noise relative to the contrast (a grey background is not signal)
    img = (img + d["noise"] * float(np.abs(img - float(d.get("bg", 0.0))).max()) * gen.noise(d["nseed"], img.shape)).astype(np.float32)
    Model = get_model(d["model"])
    ms = tuple(d["max_shifts"])
    u = d["upsample"]
    with warnings.catch_warnings():
        warnings.simplefilter("ignore")
        model = Model(tmpl)
        res = model.align(img, ms)
        lds = np.asarray(model.landscape(img, ms, upsample=u))
    tag = f"{d['model']} shape={tuple(d['shape'])} max_shifts={ms} upsample={u} d={d['d']}"
    exp_shape = tuple(2 * int(math.floor(m * u + 1e-9)) + 1 for m in ms)
    if lds.shape != exp_shape:
        # shape rule is C10's business; here only require odd sizes so that a centre exists
        if lds.ndim != 3 or any(s % 2 == 0 for s in lds.shape):
            out.append(viol("C07/landscape-shape", f"{tag}: landscape shape {lds.shape}"))
            return out
    # (a) integer level: align refines within +-1 px of the arg-max of the integer-sampled landscape. The coarse search of
    # align covers the integers up to ceil(max_shifts) (a peak in the fractional rim of the range is nearest to the integer
    # just outside of it), so the landscape is taken over that window.
    with warnings.catch_warnings():
        warnings.simplefilter("ignore")
        l1 = np.asarray(model.landscape(img, ms))
        lc = np.asarray(model.landscape(img, tuple(float(math.ceil(m - 1e-9)) for m in ms)))
    c1 = (np.array(l1.shape) - 1) // 2
    cc = (np.array(lc.shape) - 1) // 2
    top = float(lc.max())
    near = np.argwhere(lc >= top - 1e-4 * max(1.0, abs(top))) - cc  # all (near-)tied integer maxima
    shift = np.asarray(res.shift, dtype=np.float64)
    dist = np.abs(near - shift).max(axis=1).min()
    if not dist <= 1.0 + 1e-3:
        out.append(viol(f"C07/landscape-peak-vs-align:{d['model']}", f"{tag}: integer landscape maximum at {near[0].tolist()} px but align reports "
                        f"{np.round(shift, 3).tolist()} (planted {d['d']})", err=float(dist)))
    # (b) the upsampled landscape interpolates the integer one: its nodes at whole-pixel offsets carry the integer samples
    # (holds for any interpolating scheme; the arg-max of the spline itself may overshoot between nodes, see DESIGN 9)
    cu = (np.array(lds.shape) - 1) // 2
    if lds.shape == exp_shape and u > 1:
        kmax = [int(math.floor(m + 1e-9)) for m in ms]
        sl_u = tuple(slice(cu[a] - kmax[a] * u, cu[a] + kmax[a] * u + 1, u) for a in range(3))
        sl_1 = tuple(slice(c1[a] - kmax[a], c1[a] + kmax[a] + 1) for a in range(3))
        a_u, a_1 = lds[sl_u], l1[sl_1]
        # 1e-2: float32 window sums over a grey background change by ~2e-3 with the padded size (ms vs ms + 2)
        tol = 1e-2 * max(1.0, float(np.abs(l1).max()))
        if a_u.shape != a_1.shape or not np.abs(a_u - a_1).max() <= tol:
            err = float(np.abs(a_u - a_1).max()) if a_u.shape == a_1.shape else float("inf")
            out.append(viol(f"C07/landscape-upsample-nodes:{d['model']}", f"{tag}: upsampled landscape differs from the integer landscape at "
                            f"whole-pixel offsets by {err:.4g} (tol {tol:.2g})", err=err))
    return out


def judge_loader(d):
    from acryo import SubtomogramLoader, Molecules

    out = []
    shape = tuple(d["shape"])
    n = d["n"]
    S = max(shape) + 10
    tomo = gen.smooth_noise(d["seed"], (S, S, S * n), sigma=0.9)
    pos_px = np.array([[S / 2 + o[0], S / 2 + o[1], i * S + S / 2 + o[2]] for i, o in enumerate(d["offs"][:n])])
    R = Rotation.from_rotvec(np.array([r["rv"] for r in d["rots_m"][:n]]))
    scale = d["scale"]
    mole = Molecules(pos_px * scale, R)
    loader = SubtomogramLoader(tomo, mole, order=d["order"], scale=scale, output_shape=shape)
    tmpl = gen.smooth_noise(d["seed"] + 3, shape, sigma=0.9)
    Model = get_model(d["model"])
    kw = {}
    if d["tilt"] is not None:
        kw["tilt"] = tuple(d["tilt"])
    with warnings.catch_warnings():
        warnings.simplefilter("ignore")
        subs = loader.asnumpy()
        model = Model(tmpl, **kw)
        scores = loader.score([tmpl], alignment_model=Model, **kw)[0]
        m_nm = d["lmax"] * scale
        lds = loader.construct_landscape(tmpl, max_shifts=m_nm, alignment_model=Model, **kw).compute()
    if len(scores) != n or lds.shape[0] != n:
        out.append(viol("C07/loader-length", f"loader.score returned {len(scores)}, landscape {lds.shape} for {n} molecules"))
        return out
    q = mole.quaternion()
    for i in range(n):
        want = float(model.score(subs[i], q[i], (mole.pos[i] / scale)))
        if not abs(float(scores[i]) - want) <= 2e-4:
            out.append(viol("C07/loader-score-row", f"{d['model']} loader.score row {i} = {float(scores[i]):.6f} but the model scores subtomogram {i} at {want:.6f}"))
        wl = np.asarray(model.landscape(subs[i], (d["lmax"],) * 3, quaternion=q[i], pos=mole.pos[i] / scale))
        if wl.shape != lds[i].shape or not np.allclose(wl, lds[i], atol=2e-4):
            out.append(viol("C07/loader-landscape-row", f"{d['model']} construct_landscape row {i} differs from the model landscape of subtomogram {i} "
                            f"(shapes {lds[i].shape} vs {wl.shape})"))
    return out


@st.composite
def score_cases(draw):
    tilt = None
    if draw(st.sampled_from([False, True])):
        tilt = {"range": [float(draw(st.integers(-70, -30))), float(draw(st.integers(30, 70)))],
                "axis": draw(st.sampled_from(["y", "y", "x"]))}
    tilt_as = "model" if (tilt and tilt["axis"] == "x") else draw(st.sampled_from(["tuple", "model"]))
    return {"shape": draw(gen.box_shapes(4, 14)), "seed": draw(gen.seeds), "sigma": draw(st.sampled_from([0.5, 0.8, 1.2])),
            "pair": draw(st.sampled_from(["correlated", "correlated", "unrelated", "identical", "negated"])),
            "noise": draw(st.sampled_from([0.05, 0.3, 1.0, 3.0])),
            "mask": draw(st.sampled_from(["none", "none", "binary", "soft"])), "mask_r": draw(st.sampled_from([0.6, 0.8, 1.0])),
            "cutoff": draw(st.sampled_from([None, None, 0.2, 0.45, 0.7])),
            "tilt": tilt, "tilt_as": tilt_as, "rot": draw(gen.rotvecs()), "rot2": draw(gen.rotvecs()),
            "gain": draw(st.sampled_from([1e-3, 0.37, 2.0, 55.0, 1e3])), "offset": draw(st.sampled_from([-5.0, 0.25, 10.0, 100.0])),
            "lmax": draw(st.sampled_from([1.0, 2.0, 1.5, 2.7])),
            "n_other": draw(st.sampled_from([0, 0, 1, 2])), "j_pos": draw(st.integers(0, 2))}


@st.composite
def peak_cases(draw):
    model = draw(st.sampled_from(["ZNCC", "NCC", "PCC", "FSC"]))
    d = draw(c04_shift.cases([model]))
    d["mask"], d["cutoff"], d["tilt"], d["api"] = "none", None, None, "align"
    # planted peak >= 0.6 px inside the range
    d["d"] = [round(max(-(m - 0.6), min(m - 0.6, v)), 3) if m > 0.6 else 0.0 for v, m in zip(d["d"], d["max_shifts"])]
    d["noise"] = draw(st.sampled_from([0.0, 0.01, 0.03]))
    d["nseed"] = draw(gen.seeds)
    d["upsample"] = draw(st.sampled_from([1, 2, 3, 4]))
    return d


@st.composite
def wide_peak_cases(draw):
    """search ranges from half the box to beyond the box: the landscape still has its centre at zero displacement"""
    d = draw(c04_shift.wide_cases())
    d["api"] = "align"
    d["noise"] = 0.0
    d["nseed"] = 0
    d["upsample"] = draw(st.sampled_from([1, 1, 2]))
    # whole ranges <= box + 1 keep the landscape small
    d["max_shifts"] = [float(min(m, n + 1)) for m, n in zip(d["max_shifts"], d["shape"])]
    return d


@st.composite
def loader_cases(draw):
    model = draw(st.sampled_from(["ZNCC", "NCC", "PCC", "FSC"]))
    shape = draw(gen.box_shapes(5, 9 if model == "FSC" else 11))
    return {"model": model, "shape": shape, "n": draw(st.integers(2, 4)), "seed": draw(gen.seeds), "scale": draw(gen.scales),
            "order": draw(st.sampled_from([1, 3])),
            "offs": [[round(draw(st.floats(-0.5, 0.5)), 3) for _ in range(3)] for _ in range(4)],
            "rots_m": [draw(gen.rotvecs()) for _ in range(4)],
            "tilt": draw(st.sampled_from([None, [-60.0, 60.0], [-40.0, 55.0]])), "lmax": draw(st.sampled_from([1.0, 2.0]))}


def nontrivial(d):
    s = d["shape"]
    return d.get("mask", "none") != "none" or d.get("cutoff") is not None or d.get("tilt") is not None or \
        any(n % 2 for n in s) or len(set(s)) > 1


def labels_score(d):
    return gen.parity_class(d["shape"]) + [f"pair:{d['pair']}", f"mask:{d['mask']}", "cutoff:" + ("none" if d["cutoff"] is None else "set"),
                                           "tilt:" + ("none" if d["tilt"] is None else d["tilt_as"] + "-" + d["tilt"]["axis"]), f"rot:{d['rot']['cls']}"]


def engines():
    return [
        Engine("score", judge_score, strategy=score_cases(), nontrivial=nontrivial, labels=labels_score,
               cases={"quick": 300, "thorough": 10000}, shards={"quick": 8, "thorough": 16}),
        Engine("peak", judge_peak, strategy=peak_cases(), nontrivial=nontrivial,
               labels=lambda d: [f"model:{d['model']}", f"upsample:{d['upsample']}", f"class:{d['tclass']}"] + gen.parity_class(d["shape"]),
               cases={"quick": 160, "thorough": 4000}, shards={"quick": 8, "thorough": 16}),
        Engine("peak-wide", judge_peak, strategy=wide_peak_cases(), nontrivial=lambda d: True,
               labels=lambda d: [f"model:{d['model']}", f"upsample:{d['upsample']}"] + gen.parity_class(d["shape"]),
               cases={"quick": 48, "thorough": 1000}, shards={"quick": 8, "thorough": 16}),
        Engine("loader", judge_loader, strategy=loader_cases(), nontrivial=nontrivial,
               labels=lambda d: [f"model:{d['model']}", "tilt" if d["tilt"] else "no-tilt"],
               cases={"quick": 40, "thorough": 1000}, shards={"quick": 4, "thorough": 16},
               shrink={"quick": False, "thorough": True}),
    ]
