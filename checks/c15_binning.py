"""C15 - Binned loaders look at the same physical region."""
from __future__ import annotations

import warnings

import numpy as np
from hypothesis import strategies as st
from scipy.spatial.transform import Rotation

from vlib import gen
from vlib.runner import Engine, viol

PROPERTY = "C15"
RULE = ("Hypothesis draws an image shape (divisible or not by b), b in 1..6, numpy or dask input (drawn chunks), the "
        "compute flag, single or batch loader (2 tomograms), a scale, and molecules: the 'grid' class sits on the binned "
        "grid (integer binned coordinate for odd boxes, half-integer for even ones) with identity orientation, the "
        "'free' class has arbitrary poses. Oracle: binned image == block sums of the cropped image, scale' = b*scale, "
        "pos'/scale' == (pos/scale - (b-1)/2)/b, rotations/features unchanged, parent untouched, binning(1) == copy, "
        "lazy == eager, and for the grid class binned.load(i, n) == blocksum_b(original.load(i, b*n)). "
        "Non-trivial = b >= 2 with a non-divisible shape or an even box.")
RULE += (" " + 'Also: int8 / uint8 / int16 tomograms and bin sizes given as numpy integers (np.int64, np.uint8). Round 7: float16 tomograms whose block sums leave the half-precision range.')
TOLERANCES = {"image": "1e-5 relative (float32 block sums)", "positions": "1e-5 px", "subtomogram": "1e-4 relative"}
ASSUMPTIONS = ["exact-class molecules are identity-oriented and voxel-aligned in both loaders, so no interpolation enters"]


def blocksum(a, b):
    a = np.asarray(a, dtype=np.float64)
    sl = tuple(slice(0, (n // b) * b) for n in a.shape)
    a = a[sl]
    sh = []
    for n in a.shape:
        sh += [n // b, b]
    return a.reshape(sh).sum(axis=(1, 3, 5))


def judge(d):
    from acryo import SubtomogramLoader, BatchLoader, Molecules
    import polars as pl
    import dask.array as da

    out = []
    b = d["b"]
    n = tuple(d["box"])
    ish = tuple(d["ishape"])
    scale = d["scale"]
    ntomo = (3 if d.get("three") else 2) if d["batch"] else 1
    imgs = [gen.smooth_noise(d["seed"] + t, ish, sigma=1.0) for t in range(ntomo)]
    if d.get("idtype", "float32") == "float16":
        # half-precision tomograms (MRC mode 12): the block sums need more range and precision than the storage dtype
        imgs = [(im * 30.0 + 400.0).astype(np.float16) for im in imgs]
    elif d.get("idtype", "float32") != "float32":
        # integer tomograms (MRC modes 0 / 1 / 6): the block sums do not fit the input dtype
        imgs = [np.clip(np.round(im * 30.0) + (100 if d["idtype"] == "uint8" else 0), 0 if d["idtype"] == "uint8" else -120, 250 if d["idtype"] == "uint8" else 120).astype(d["idtype"]) for im in imgs]
    nm = len(d["mols"])
    bshape = tuple(s // b for s in ish)
    pos_px, rots, exact_ok = [], [], []
    for m in d["mols"]:
        if d["cls"] == "grid":
            cb = []
            for a in range(3):
                half = (n[a] - 1) / 2
                lo = int(np.ceil(half)) + 1
                hi = int(np.floor(bshape[a] - 1 - half)) - 1
                k = lo + (m["k"][a] % max(1, hi - lo + 1)) if hi >= lo else lo
                cb.append(k + (0.5 if n[a] % 2 == 0 else 0.0))
            cb = np.array(cb)
            ok = all(cb[a] - (n[a] - 1) / 2 >= 0 and cb[a] + (n[a] - 1) / 2 <= bshape[a] - 1 for a in range(3))
            pos_px.append(b * cb + (b - 1) / 2)
            rots.append([0.0, 0.0, 0.0])
            exact_ok.append(ok)
        else:
            pos_px.append(np.array([ish[a] * (0.3 + 0.4 * m["f"][a]) for a in range(3)]))
            rots.append(m["rot"]["rv"])
            exact_ok.append(False)
    pos_px = np.array(pos_px)
    feats = pl.DataFrame({"uid": list(range(nm)), "w": [0.5 * i for i in range(nm)]})
    mole = Molecules(pos_px * scale, Rotation.from_rotvec(np.array(rots)), features=feats)

    def wrap(t, ti=0):
        if d["chunks"] is None:
            return t
        kinds = d.get("kinds")
        if d["batch"] and kinds and not kinds[ti % len(kinds)]:
            return t          # a batch mixing numpy and dask tomograms
        return da.from_array(t, chunks=tuple(tuple(c) for c in d["chunks"]))

    order = d["order"]
    # image ids need not be 0..n-1 in registration order
    ids = list(d.get("ids") or range(ntomo))[:ntomo]
    if not d["batch"]:
        ids = [0]
    if d["batch"]:
        loader = BatchLoader(order=order, scale=scale)
        split = [[i for i in range(nm) if i % ntomo == t] for t in range(ntomo)]
        for t in range(ntomo):
            if split[t]:
                loader.add_tomogram(wrap(imgs[t], t), mole.subset(split[t]), image_id=ids[t])
        tomo_of = {i: i % ntomo for i in range(nm)}
    else:
        loader = SubtomogramLoader(wrap(imgs[0], 0), mole, order=order, scale=scale)
        tomo_of = {i: 0 for i in range(nm)}
    before_pos = loader.molecules.pos.copy()
    before_q = loader.molecules.quaternion().copy()
    before_f = loader.molecules.features.clone()
    tag = f"b={b} image={ish} box={n} batch={d['batch']} {'dask' if d['chunks'] else 'numpy'} compute={d['compute']} scale={scale}"
    with warnings.catch_warnings():
        warnings.simplefilter("ignore")
        if d.get("preload") and nm:
            # the parent has been used before it is binned (cached state must not leak into the binned loader)
            loader.load(0, output_shape=n)
        # the bin size as a python int or as a numpy integer (e.g. read from a header)
        b_arg = {"int": int, "np.int64": np.int64, "np.uint8": np.uint8}[d.get("btype", "int")](b)
        binned = loader.binning(b_arg, compute=d["compute"])
        other = loader.binning(b, compute=not d["compute"])
    # parent untouched
    if not (np.array_equal(loader.molecules.pos, before_pos) and np.array_equal(loader.molecules.quaternion(), before_q)
            and loader.molecules.features.equals(before_f) and loader.scale == scale):
        out.append(viol("C15/parent-modified", f"{tag}: binning changed the parent loader"))
    if not abs(binned.scale - b * scale) <= 1e-9 * b * scale:
        out.append(viol("C15/scale", f"{tag}: binned scale {binned.scale} != {b * scale}"))
    images = dict(binned.images) if d["batch"] else {0: binned.image}
    oimages = dict(other.images) if d["batch"] else {0: other.image}
    for key, im in images.items():
        if key not in ids:
            out.append(viol("C15/image-ids", f"{tag}: binned loader holds an image under id {key!r}, registered ids are {ids}"))
            continue
        t = ids.index(key)
        arr = np.asarray(im.compute() if hasattr(im, "compute") else im)
        want = blocksum(imgs[t], b)
        if arr.shape != want.shape:
            out.append(viol("C15/image-shape", f"{tag}: binned image shape {arr.shape} != {want.shape}"))
            continue
        e = float(np.abs(arr - want).max())
        if not e <= 1e-5 * (float(np.abs(want).max()) + 1e-9):
            out.append(viol("C15/image-not-blocksum", f"{tag}: binned image differs from the block sum by {e:.3g}", err=e))
        oi = oimages[key]
        oarr = np.asarray(oi.compute() if hasattr(oi, "compute") else oi)
        if oarr.shape != arr.shape or not np.allclose(oarr, arr, rtol=1e-6, atol=1e-6):
            out.append(viol("C15/lazy-vs-eager", f"{tag}: lazily and eagerly binned images differ"))
        if b > 1 and d["chunks"] is not None and d["compute"] and hasattr(im, "compute"):
            out.append(viol("C15/compute-flag", f"{tag}: compute=True left a lazy image"))
    bm = binned.molecules
    uid = bm.features["uid"].to_list()
    ouid = loader.molecules.features["uid"].to_list()
    if uid != ouid:
        out.append(viol("C15/molecule-order", f"{tag}: molecule order changed {ouid} -> {uid}"))
        return out
    want_px = (loader.molecules.pos.astype(np.float64) / scale - (b - 1) / 2) / b
    got_px = bm.pos.astype(np.float64) / binned.scale
    e = float(np.abs(got_px - want_px).max()) if nm else 0.0
    if not e <= 1e-5 * (1 + float(np.abs(want_px).max())):
        out.append(viol("C15/position", f"{tag}: binned pixel positions off by {e:.3g} px", err=e))
    if not np.allclose(bm.quaternion(), loader.molecules.quaternion(), atol=1e-12):
        out.append(viol("C15/rotation-changed", f"{tag}: rotations changed"))
    if not bm.features.equals(loader.molecules.features):
        out.append(viol("C15/features-changed", f"{tag}: features changed"))
    if b == 1:
        if not np.array_equal(bm.pos, loader.molecules.pos):
            out.append(viol("C15/binning-1", f"{tag}: binning(1) moved the molecules"))
    # binning the binned loader again (also by the same factor as before): block sums of block sums, scale multiplied again
    b2 = d.get("rebin")
    f2 = (b if b2 == "same" else int(b2)) if b2 else 0
    if b2 and b > 1 and all(s // b // f2 >= 1 for s in ish):
        with warnings.catch_warnings():
            warnings.simplefilter("ignore")
            again = binned.binning(f2, compute=True)
        if not abs(again.scale - f2 * b * scale) <= 1e-9 * f2 * b * scale:
            out.append(viol("C15/rebin-scale", f"{tag}: binning({b}).binning({f2}) has scale {again.scale}, expected {f2 * b * scale}"))
        images2 = dict(again.images) if d["batch"] else {0: again.image}
        for key, im in images2.items():
            if key not in ids:
                continue
            arr2 = np.asarray(im.compute() if hasattr(im, "compute") else im)
            want2 = blocksum(blocksum(imgs[ids.index(key)], b), f2)
            if arr2.shape != want2.shape or not float(np.abs(arr2 - want2).max()) <= 1e-5 * (float(np.abs(want2).max()) + 1e-9):
                out.append(viol("C15/rebin-image", f"{tag}: binning({b}).binning({f2}) image (shape {arr2.shape}) is not the block sum of the binned image (shape {want2.shape})"))
                break
    # exact class
    if d["cls"] == "grid" and b >= 1:
        big = tuple(b * s for s in n)
        with warnings.catch_warnings():
            warnings.simplefilter("ignore")
            for row, i in enumerate(uid):
                if not exact_ok[i]:
                    continue
                small = binned.load(row, output_shape=n)
                full = loader.load(row, output_shape=big)
                want = blocksum(full, b)
                e = float(np.abs(small - want).max())
                # relative to the magnitude of what is summed (b^3 terms that may cancel), not of the sum itself
                if not e <= 1e-4 * (float(blocksum(np.abs(full), b).max()) + 1e-9):
                    out.append(viol("C15/subtomogram-not-blocksum", f"{tag}: molecule {i}: binned subtomogram differs from the block sum of the "
                                    f"{big} subtomogram by {e:.3g} (binned px pos {np.round(got_px[row], 3).tolist()})", err=e))
                    break
    return out


@st.composite
def cases(draw):
    b = draw(st.integers(1, 6))
    box = draw(gen.box_shapes(1, 4))
    ish = []
    for a in range(3):
        nb = draw(st.integers(box[a] + 4, box[a] + 8))
        ish.append(nb * b + (draw(st.integers(0, b - 1)) if draw(st.booleans()) else 0))
    chunks = draw(gen.chunkings(ish, min_chunk=8)) if draw(st.booleans()) else None
    cls = draw(st.sampled_from(["grid", "grid", "free"]))
    mols = [{"k": [draw(st.integers(0, 30)) for _ in range(3)], "f": [round(draw(st.floats(0, 1)), 3) for _ in range(3)],
             "rot": draw(gen.rotvecs())} for _ in range(draw(st.integers(1, 4)))]
    return {"rebin": draw(st.sampled_from([None, None, "same", 2, 3])), "ids": draw(st.sampled_from([None, None, [7, 3, 5], [2, 0, 1], [10, 20, 30]])),
            "idtype": draw(st.sampled_from(["float32", "float32", "float32", "int8", "uint8", "int16", "float16"])),
            "btype": draw(st.sampled_from(["int", "int", "np.int64", "np.uint8"])),
            "b": b, "box": box, "ishape": ish, "chunks": chunks, "compute": draw(st.booleans()), "batch": draw(st.booleans()),
            "scale": draw(gen.scales), "order": draw(st.sampled_from([0, 1, 3])), "cls": cls, "mols": mols, "seed": draw(gen.seeds),
            "preload": draw(st.booleans()), "three": draw(st.booleans()),
            "kinds": draw(st.lists(st.booleans(), min_size=3, max_size=3))}


def nontrivial(d):
    return d["b"] >= 2 and (any(s % d["b"] for s in d["ishape"]) or any(s % 2 == 0 for s in d["box"]))


def labels(d):
    return [f"b:{d['b']}", "divisible" if not any(s % d["b"] for s in d["ishape"]) else "non-divisible", f"cls:{d['cls']}",
            "batch" if d["batch"] else "single", "dask" if d["chunks"] else "numpy", f"compute:{d['compute']}", "parent-used-first" if d.get("preload") else "fresh-parent",
            "mixed-numpy-dask" if (d["batch"] and d["chunks"] and len(set(d.get("kinds", [True])[: (3 if d.get("three") else 2)])) > 1) else "uniform-kind"] + gen.parity_class(d["box"])


def engines():
    return [Engine("binning", judge, strategy=cases(), nontrivial=nontrivial, labels=labels,
                   cases={"quick": 200, "thorough": 6000}, shards={"quick": 8, "thorough": 16})]
