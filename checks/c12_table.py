"""C12 - Table operations keep a molecule's position, orientation and features together.

Model-based: a generated history of table operations is applied to real ``Molecules`` objects and to
a plain list-of-rows model; after every step every live table must equal its model.
"""
from __future__ import annotations

import math

import numpy as np
from hypothesis import strategies as st
from scipy.spatial.transform import Rotation

from vlib.runner import Engine, viol, HarnessError

PROPERTY = "C12"
RULE = ("Hypothesis draws a history (<= 10 steps) over a pool of Molecules tables (0..8 rows; feature columns "
        "int/float/str/bool with nulls; every row's uid is also encoded in its position and rotation vector): "
        "new, subset (int / slice incl. negative step / index list / int array / bool mask), filter (expression or "
        "boolean list), sort (1-2 keys, descending), head, tail, sample, concat, concat_with, append, "
        "with_features, drop_features, group_by (1-2 keys), cutby, copy, plus rejection steps (wrong feature "
        "length, feature named like a coordinate column, extra columns on append, non-Molecules append, "
        "out-of-range / negative integer index). A list-of-rows model is advanced in lock step and every live "
        "table is compared with its model after every step. Non-trivial = >= 3 operations including one "
        "data-frame path and one numpy path on a table with >= 2 feature columns.")
RULE += (" " + "Also: boolean list / boolean Series masks in subset, nulls in the cutby column, concat of iterators / generators, op 'alias_append' (copy / concat of one / concat_with(empty), then an in-place append to either table), op 'df_append_df' (data-frame operation, in-place append, data-frame operations again), 0-row feature frames as a rejected input. Round 7: with_features of a polars literal, also on tables without feature columns. Round 8: append of a table with the same feature names in another column order.")
TOLERANCES = {"position": "exact (float32)", "rotation": "1e-5 rad (float32 rotation-vector round trips)",
              "features": "exact"}
ASSUMPTIONS = ["polars null semantics: a null predicate drops the row in filter; sort position of nulls is not asserted",
               "feature column order and dtypes are not asserted here (C13 covers column order on I/O)"]

COLS = {"ia": "int", "ib": "int", "fa": "float", "fb": "float", "sa": "str", "sb": "str", "ba": "bool"}
BAD = ["z", "y", "x", "zvec", "yvec", "xvec"]
DF_OPS = {"filter", "sort", "head", "tail", "sample", "group_by", "cutby"}
NP_OPS = {"subset", "concat", "concat_with", "append", "alias_append", "df_append_df", "copy", "with_features", "drop_features"}


def pos_of(uid):
    return [float(uid), float(uid) * 0.5 + 1.0, -float(uid)]


def rv_of(uid):
    return [0.01 * (uid + 1), 0.005 * (uid + 1), -0.003 * (uid + 1) + 0.5]


class MTable:
    """model table: ordered columns + list of rows {'uid': int, 'f': {col: value}}"""

    def __init__(self, cols, rows, untyped_empty=False):
        self.cols = list(cols)
        self.rows = rows
        self.untyped_empty = untyped_empty  # build a 0-row table with Molecules.empty(labels)

    def copy(self):
        return MTable(self.cols, [{"uid": r["uid"], "f": dict(r["f"])} for r in self.rows])

    def has_bad(self):
        return any(c in BAD for c in self.cols)


def build_real(mt: MTable):
    from acryo import Molecules
    import polars as pl

    n = len(mt.rows)
    pos = np.array([pos_of(r["uid"]) for r in mt.rows], dtype=np.float32).reshape(n, 3)
    if n == 0:
        if not mt.cols:
            return Molecules.empty()
        if mt.untyped_empty:
            return Molecules.empty(mt.cols)
        dts = {"int": pl.Int64, "float": pl.Float64, "str": pl.String, "bool": pl.Boolean}
        return Molecules(np.zeros((0, 3)), None,
                         features=pl.DataFrame({c: pl.Series(c, [], dtype=dts[COLS.get(c, "int")]) for c in mt.cols}))
    rot = Rotation.from_rotvec(np.array([rv_of(r["uid"]) for r in mt.rows]))
    feats = None
    if mt.cols:
        data = {}
        for c in mt.cols:
            kind = COLS.get(c, "int")
            dt = {"int": pl.Int64, "float": pl.Float64, "str": pl.String, "bool": pl.Boolean}[kind]
            data[c] = pl.Series(c, [r["f"][c] for r in mt.rows], dtype=dt)
        feats = pl.DataFrame(data)
    return Molecules(pos, rot, features=feats)


def compare(tag, real, mt: MTable, out, ordered=True):
    n = len(mt.rows)
    f = real.features
    fh = f.height if len(f.columns) else None
    if len(real) != n or real.pos.shape[0] != n or (n and len(real.rotator) != n) or (fh is not None and fh != n and mt.cols):
        out.append(viol("C12/length", f"{tag}: len={len(real)} pos={real.pos.shape} features={f.shape}, model has {n} rows"))
        return False
    if n == 0:
        compare.last_order = []
        return True  # no rows: the feature schema of an empty table is immaterial
    # a column that is null in every model row may be absent (schemas of empty inputs are immaterial)
    required = {c for c in mt.cols if any(r["f"][c] is not None for r in mt.rows)}
    if not (required <= set(f.columns) <= set(mt.cols)):
        out.append(viol("C12/columns", f"{tag}: feature columns {f.columns} != model {mt.cols}"))
        return False
    uids = [int(round(float(v))) for v in real.pos[:, 0]] if n else []
    want = [r["uid"] for r in mt.rows]
    if ordered:
        if uids != want:
            out.append(viol("C12/rows", f"{tag}: row uids {uids} != model {want}"))
            return False
        order = list(range(n))
    else:
        if sorted(uids) != sorted(want):
            out.append(viol("C12/rows", f"{tag}: row uid multiset {sorted(uids)} != model {sorted(want)}"))
            return False
        # match each real row to an unused model row with the same uid, preferring equal features
        colsr = {c: (f[c].to_list() if c in f.columns else [None] * n) for c in mt.cols}
        order = []
        used = set()
        for i, u in enumerate(uids):
            cand = [k for k, w in enumerate(want) if w == u and k not in used]
            best = next((k for k in cand if all(colsr[c][i] == mt.rows[k]["f"][c] for c in mt.cols)), cand[0])
            used.add(best)
            order.append(best)
    compare.last_order = order
    missing = [c for c in mt.cols if c not in f.columns]
    if missing:  # all-null columns the implementation did not materialise: drop them from the model
        mt.cols = [c for c in mt.cols if c in f.columns]
        for r in mt.rows:
            for c in missing:
                r["f"].pop(c, None)
    cols = {c: (f[c].to_list() if c in f.columns else [None] * n) for c in mt.cols}
    rv = real.rotvec() if n else np.zeros((0, 3))
    for i in range(n):
        r = mt.rows[order[i]]
        if not np.array_equal(real.pos[i], np.array(pos_of(r["uid"]), dtype=np.float32)):
            out.append(viol("C12/position-detached", f"{tag}: row {i} (uid {r['uid']}) has position {real.pos[i].tolist()}"))
            return False
        a = (Rotation.from_rotvec(rv[i]).inv() * Rotation.from_rotvec(rv_of(r["uid"]))).magnitude()
        if not a <= 1e-5:
            out.append(viol("C12/orientation-detached", f"{tag}: row {i} (uid {r['uid']}) orientation off by {a:.3g} rad"))
            return False
        for c in mt.cols:
            got, exp = cols[c][i], r["f"][c]
            same = (got is None and exp is None) or (got is not None and exp is not None and got == exp)
            if not same:
                out.append(viol("C12/feature-detached", f"{tag}: row {i} (uid {r['uid']}) column {c}: {got!r} != {exp!r}"))
                return False
    return True


def pred_eval(p, row):
    v = row["f"].get(p["col"])
    if p["kind"] == "is_null":
        return v is None
    if v is None:
        return None
    if p["kind"] == "gt":
        return v > p["val"]
    if p["kind"] == "le":
        return v <= p["val"]
    if p["kind"] == "eq":
        return v == p["val"]
    raise HarnessError(f"unknown predicate {p}")


def pred_expr(p):
    import polars as pl

    c = pl.col(p["col"])
    return {"is_null": lambda: c.is_null(), "gt": lambda: c > p["val"], "le": lambda: c <= p["val"],
            "eq": lambda: c == p["val"]}[p["kind"]]()


def pick(pool, i):
    return i % len(pool)


def judge(d):
    from acryo import Molecules
    import polars as pl

    out = []
    reals, models = [], []
    next_uid = [0]

    def new_table(spec):
        rows = []
        for k in range(spec["n"]):
            f = {}
            for c in spec["cols"]:
                vals = spec["vals"][c]
                f[c] = vals[k % len(vals)] if vals else None
            rows.append({"uid": next_uid[0], "f": f})
            next_uid[0] += 1
        mt = MTable(spec["cols"], rows, untyped_empty=bool(spec.get("untyped_empty")))
        return build_real(mt), mt

    def add(real, mt):
        reals.append(real)
        models.append(mt)

    r0, m0 = new_table(d["init"])
    add(r0, m0)

    def check_all(tag):
        ok = True
        for i, (r, m) in enumerate(zip(reals, models)):
            ok = compare(f"{tag}: table {i}", r, m, out) and ok
        return ok

    if not check_all("init"):
        return out

    def expect_raise(tag, fn, types):
        try:
            fn()
        except types:
            return True
        except Exception as e:  # noqa: BLE001
            out.append(viol("C12/wrong-exception", f"{tag}: raised {type(e).__name__} instead of {[t.__name__ for t in types]}: {e}"))
            return False
        out.append(viol("C12/inconsistent-input-accepted", f"{tag}: inconsistent input was accepted"))
        return False

    for k, op in enumerate(d["ops"]):
        name = op["op"]
        ti = pick(reals, op.get("t", 0))
        real, mt = reals[ti], models[ti]
        n = len(mt.rows)
        tag = f"step {k} {name}"
        cols = mt.cols
        # tables with a coordinate-named feature must be rejected on every data-frame path
        if name in DF_OPS and mt.has_bad():
            fn = {"filter": lambda: real.filter([True] * n), "sort": lambda: real.sort(cols[0]),
                  "head": lambda: real.head(1), "tail": lambda: real.tail(1),
                  "sample": lambda: real.sample(min(1, n), seed=0),
                  "group_by": lambda: list(real.group_by(cols[0])),
                  "cutby": lambda: list(real.cutby(cols[0], [0.5]))}[name]
            expect_raise(tag + " (coordinate-named feature)", fn, (ValueError,))
            check_all(tag)
            continue
        if n == 0 and (name in ("sort", "drop_features", "with_features", "group_by", "cutby")
                       or (name == "filter" and op["kind"] != "mask")):
            continue  # the feature schema of an empty table is immaterial: no column references on it
        if name == "new":
            add(*new_table(op["spec"]))
        elif name == "copy":
            add(real.copy(), mt.copy())
        elif name == "subset":
            kind = op["kind"]
            if n == 0 and kind in ("int", "list", "array"):
                continue
            if kind == "int":
                i = op["i"] % n
                add(real.subset(i), MTable(cols, [mt.rows[i]]))
            elif kind == "slice":
                sl = slice(op["start"], op["stop"], op["step"] or None)
                add(real.subset(sl), MTable(cols, mt.rows[sl]))
            elif kind in ("list", "array"):
                idx = [(i % (2 * n)) - n for i in op["idx"]]  # in [-n, n)
                spec = idx if kind == "list" else np.array(idx, dtype=np.int64)
                if len(idx) == 0:
                    continue
                add(real.subset(spec), MTable(cols, [mt.rows[i] for i in idx]))
            elif kind in ("mask", "mask-list", "mask-series"):
                mask = [bool(op["mask"][i % len(op["mask"])]) for i in range(n)] if op["mask"] else [True] * n
                # "any object numpy slicing is defined for": a bool array, a plain list of bools, a boolean polars Series
                spec = np.array(mask, dtype=bool) if kind == "mask" else (list(mask) if kind == "mask-list" else pl.Series(mask, dtype=pl.Boolean))
                if n == 0 and kind != "mask":
                    continue
                add(real.subset(spec), MTable(cols, [r for r, b in zip(mt.rows, mask) if b]))
        elif name == "filter":
            if op["kind"] == "mask" or not cols:
                mask = [bool(op["mask"][i % len(op["mask"])]) for i in range(n)] if op["mask"] else [True] * n
                add(real.filter(mask), MTable(cols, [r for r, b in zip(mt.rows, mask) if b]))
            else:
                p = dict(op["pred"])
                p["col"] = cols[p["ci"] % len(cols)]
                kindc = COLS.get(p["col"], "int")
                if p["kind"] in ("gt", "le") and kindc in ("str", "bool"):
                    p["kind"] = "eq"
                p["val"] = {"int": p["ival"], "float": p["fval"], "str": p["sval"], "bool": p["bval"]}[kindc]
                add(real.filter(pred_expr(p)), MTable(cols, [r for r in mt.rows if pred_eval(p, r) is True]))
        elif name == "sort":
            if not cols:
                continue
            keys = [cols[i % len(cols)] for i in op["keys"]]
            keys = list(dict.fromkeys(keys))
            res = real.sort(keys if len(keys) > 1 else keys[0], descending=op["desc"])
            sm = MTable(cols, list(mt.rows))
            if compare(tag, res, sm, out, ordered=False):
                # keys monotone over rows whose keys are all non-null
                vals = [tuple(v) for v in zip(*[res.features[c].to_list() for c in keys])]
                vals = [v for v in vals if all(x is not None for x in v)]
                srt = sorted(vals, reverse=op["desc"])
                if vals != srt:
                    out.append(viol("C12/sort-order", f"{tag}: keys {keys} not sorted (descending={op['desc']}): {vals}"))
                # adopt the real order for the model
                sm.rows = [mt.rows[j] for j in compare.last_order]
            add(res, sm)
        elif name in ("head", "tail"):
            c = op["n"] % (n + 2)
            if name == "head":
                add(real.head(c), MTable(cols, mt.rows[:c]))
            else:
                add(real.tail(c), MTable(cols, mt.rows[max(0, n - c):] if c else []))
        elif name == "sample":
            c = op["n"] % (n + 1)
            res = real.sample(c, seed=op["seed"])
            uids = [int(round(float(v))) for v in res.pos[:, 0]] if len(res) else []
            pool = [r["uid"] for r in mt.rows]
            okk = len(uids) == c
            tmp = list(pool)
            for u in uids:
                if u in tmp:
                    tmp.remove(u)
                else:
                    okk = False
            if not okk:
                out.append(viol("C12/sample", f"{tag}: sample({c}) returned uids {uids} from {pool}"))
            else:
                # adopt the sampled rows: match by uid and feature values (duplicated uids may differ in features)
                fl = {c_: (res.features[c_].to_list() if c_ in res.features.columns else [None] * c) for c_ in cols}
                used, rows = set(), []
                for i, u in enumerate(uids):
                    cand = [j for j, r in enumerate(mt.rows) if r["uid"] == u and j not in used]
                    best = next((j for j in cand if all(fl[c_][i] == mt.rows[j]["f"][c_] for c_ in cols)), cand[0])
                    used.add(best)
                    rows.append(mt.rows[best])
                add(res, MTable(cols, rows))
                res2 = real.sample(c, seed=op["seed"])
                if [int(round(float(v))) for v in res2.pos[:, 0]] != uids:
                    out.append(viol("C12/sample-seed", f"{tag}: same seed gave a different sample"))
        elif name in ("concat", "concat_with"):
            tj = pick(reals, op["t2"])
            r2, m2 = reals[tj], models[tj]
            same_schema = m2.cols == cols and not (mt.untyped_empty and not mt.rows) and not (m2.untyped_empty and not m2.rows)
            # a strict (nullable=False) concatenation is only requested for tables whose columns also come in the same order
            # (the order after an earlier nullable concat depends on which operands had rows; polars rejects a vertical
            # concat of differently ordered frames, which is a rejection, not a misalignment)
            same_schema = same_schema and list(real.features.columns) == list(r2.features.columns)
            nullable = op["nullable"] or not same_schema
            if name == "concat":
                tk = pick(reals, op["t3"])
                parts_r, parts_m = [real, r2], [mt, m2]
                if op["three"] and ((models[tk].cols == cols and (models[tk].rows or not models[tk].untyped_empty)) or nullable):
                    parts_r.append(reals[tk])
                    parts_m.append(models[tk])
                if not nullable and not (all(p.cols == cols for p in parts_m)
                                         and all(list(p.features.columns) == list(real.features.columns) for p in parts_r)):
                    nullable = True
                # any iterable of molecules, also a one-shot generator
                arg = parts_r if not op.get("as_iter") else (iter(parts_r) if op["as_iter"] == 1 else (p_ for p_ in parts_r))
                res = Molecules.concat(arg, nullable=nullable)
            else:
                parts_m = [mt, m2]
                res = real.concat_with(r2, nullable=nullable)
            ucols = list(dict.fromkeys(c for p in parts_m for c in p.cols))
            rows = [{"uid": r["uid"], "f": {c: r["f"].get(c) for c in ucols}} for p in parts_m for r in p.rows]
            add(res, MTable(ucols, rows))
        elif name == "append":
            tj = pick(reals, op["t2"])
            r2, m2 = reals[tj], models[tj]
            if tj == ti:
                r2, m2 = real.copy(), mt.copy()
            extra = [c for c in m2.cols if c not in cols]
            if extra and n > 0 and not m2.rows:
                # an empty table has no rows that could be misaligned; its schema is immaterial (section 9): accepting it as a
                # no-op is as good as rejecting it
                try:
                    real.append(r2)
                except ValueError:
                    pass
            elif extra and n > 0:
                expect_raise(tag + f" (extra columns {extra})", lambda: real.append(r2), (ValueError,))
            elif n == 0:
                res = real.append(r2)
                if res is not real:
                    out.append(viol("C12/append-not-inplace", f"{tag}: append did not return self"))
                models[ti] = MTable(m2.cols, [dict(uid=r["uid"], f=dict(r["f"])) for r in m2.rows])
            else:
                if op.get("three") and len(m2.cols) >= 2 and m2.rows:
                    # round 8: the appended table carries the same feature names in another column order
                    r2 = Molecules(r2.pos, r2.rotator, features=r2.features.select(list(reversed(r2.features.columns))))
                res = real.append(r2)
                if res is not real:
                    out.append(viol("C12/append-not-inplace", f"{tag}: append did not return self"))
                models[ti] = MTable(cols, mt.rows + [{"uid": r["uid"], "f": {c: r["f"].get(c) for c in cols}} for r in m2.rows])
        elif name == "df_append_df":
            # a data-frame operation, an in-place append, another data-frame operation on the same table: the second one sees the
            # appended rows (also for tables without features)
            if mt.has_bad():
                continue
            first = real.head(op["n"] % (n + 2))
            add(first, MTable(cols, mt.rows[:op["n"] % (n + 2)]))
            k_rows = max(1, n // 2) if n else 0
            if n:
                extra_r = real.subset(slice(0, k_rows))
                extra_rows = [{"uid": r["uid"], "f": dict(r["f"])} for r in mt.rows[:k_rows]]
            else:
                extra_r, extra_rows = new_table({"n": 2, "cols": [], "vals": {}, "untyped_empty": False})
                extra_rows = extra_rows.rows
            if n == 0 and cols:
                continue
            real.append(extra_r)
            models[ti] = MTable(cols, mt.rows + extra_rows)
            mt2 = models[ti]
            n2 = len(mt2.rows)
            c2 = op["n2"] % (n2 + 2)
            add(real.tail(c2), MTable(cols, mt2.rows[max(0, n2 - c2):] if c2 else []))
            mask2 = [bool(op["mask"][i % len(op["mask"])]) for i in range(n2)] if op["mask"] else [True] * n2
            add(real.filter(mask2), MTable(cols, [r for r, b in zip(mt2.rows, mask2) if b]))
        elif name == "alias_append":
            # a second table built from this one without changing it (copy / concat of one / concat_with an empty table) must
            # not change when rows are appended to the first one (or the other way round)
            if n == 0 or mt.has_bad():
                continue
            how = op["how"]
            if how == "copy":
                alias = real.copy()
            elif how == "concat1":
                alias = Molecules.concat([real])
            else:
                alias = real.concat_with(Molecules.empty())
            add(alias, mt.copy())
            k_rows = max(1, n // 2)
            extra_r = real.subset(slice(0, k_rows))
            extra_rows = [{"uid": r["uid"], "f": dict(r["f"])} for r in mt.rows[:k_rows]]
            if op["target"] == 0:
                real.append(extra_r)
                models[ti] = MTable(cols, mt.rows + extra_rows)
            else:
                alias.append(extra_r)
                models[-1] = MTable(cols, models[-1].rows + extra_rows)
        elif name == "with_features":
            if op.get("lit") and n > 0 and "lit" not in cols:
                # a constant column (a polars literal), also on a table that has no feature column yet
                res = real.with_features(pl.lit(7).alias("lit"))
                COLS.setdefault("lit", "int")
                add(res, MTable(cols + ["lit"], [{"uid": r["uid"], "f": {**r["f"], "lit": 7}} for r in mt.rows]))
                if not check_all(tag):
                    return out
                continue
            src = [c for c in cols if COLS.get(c) in ("int", "float")]
            if not src or n == 0:
                continue
            c = src[op["ci"] % len(src)]
            newc = "w" + c
            if newc in cols:
                continue
            res = real.with_features((pl.col(c) * 2).alias(newc))
            rows = [{"uid": r["uid"], "f": {**r["f"], newc: (None if r["f"][c] is None else r["f"][c] * 2)}} for r in mt.rows]
            COLS.setdefault(newc, COLS[c])
            add(res, MTable(cols + [newc], rows))
        elif name == "drop_features":
            if not cols:
                continue
            c = cols[op["ci"] % len(cols)]
            res = real.drop_features(c)
            rest = [x for x in cols if x != c]
            add(res, MTable(rest, [{"uid": r["uid"], "f": {x: r["f"][x] for x in rest}} for r in mt.rows]))
        elif name == "group_by":
            if not cols or n == 0:
                continue
            keys = list(dict.fromkeys(cols[i % len(cols)] for i in op["keys"]))
            groups = list(real.group_by(keys if len(keys) > 1 else keys[0]))
            groups2 = list(real.group_by(keys if len(keys) > 1 else keys[0]))
            want = {}
            for r in mt.rows:
                kk = tuple(r["f"][c] for c in keys)
                want.setdefault(kk, []).append(r)
            got_keys = []
            for key, sub in groups:
                kk = tuple(key) if isinstance(key, tuple) else (key,)
                got_keys.append(kk)
                if kk not in want:
                    out.append(viol("C12/group-key", f"{tag}: unexpected group key {kk}"))
                    continue
                compare(f"{tag} group {kk}", sub, MTable(cols, want[kk]), out)
            if sorted(map(repr, got_keys)) != sorted(map(repr, want)):
                out.append(viol("C12/group-partition", f"{tag}: group keys {got_keys} do not partition the input (expected {list(want)})"))
            if len(groups2) != len(groups):
                out.append(viol("C12/group-reiterate", f"{tag}: iterating the group twice gave {len(groups2)} vs {len(groups)} groups"))
            if groups:
                cat = Molecules.concat([g for _, g in groups])
                compare(f"{tag} concat(groups)", cat, MTable(cols, list(mt.rows)), out, ordered=False)
        elif name == "cutby":
            # (columns with nulls included: the rows without a value form a group of their own, whatever its key)
            src = [c for c in cols if COLS.get(c) in ("float",) and any(r["f"][c] is not None for r in mt.rows)]
            if not src or n == 0:
                continue
            c = src[op["ci"] % len(src)]
            bins = sorted(set(op["bins"]))
            groups = list(real.cutby(c, bins))
            seen = []
            for edges, sub in groups:
                if edges.gt != edges.gt:  # NaN edges: the null group
                    rows = [r for r in mt.rows if r["f"][c] is None]
                else:
                    rows = [r for r in mt.rows if r["f"][c] is not None and edges.gt < r["f"][c] <= edges.le]
                compare(f"{tag} bin {edges}", sub, MTable(cols, rows), out)
                seen.extend(int(round(float(v))) for v in sub.pos[:, 0])
            if sorted(seen) != sorted(r["uid"] for r in mt.rows):
                out.append(viol("C12/cut-partition", f"{tag}: cutby groups do not partition the input"))
        elif name == "reject":
            kind = op["kind"]
            if kind == "wrong-length":
                k2 = n + 1 + (op["n"] % 3)
                expect_raise(tag + " wrong feature length",
                             lambda: Molecules(real.pos, real.rotator if n else None, features={"q": list(range(k2))}),
                             (ValueError,))
                if n > 0:
                    # a feature frame that has columns but no rows is a length mismatch too
                    expect_raise(tag + " zero feature rows",
                                 lambda: Molecules(real.pos, real.rotator, features=pl.DataFrame({"q": pl.Series([], dtype=pl.Int64)})),
                                 (ValueError,))
            elif kind == "coord-name":
                if n == 0:
                    continue
                bad = BAD[op["n"] % len(BAD)]
                bt = Molecules(real.pos, real.rotator, features=real.features.with_columns(pl.Series(bad, list(range(n)))) if cols
                               else {bad: list(range(n))})
                bm = MTable(cols + [bad], [{"uid": r["uid"], "f": {**r["f"], bad: i}} for i, r in enumerate(mt.rows)])
                add(bt, bm)
                expect_raise(tag + f" feature named {bad!r}: to_dataframe", bt.to_dataframe, (ValueError,))
            elif kind == "append-non-molecules":
                expect_raise(tag + " append(non-Molecules)", lambda: real.append(real.pos), (TypeError,))
            elif kind == "append-extra-column":
                # an append that must be rejected (the other table has rows and a column this one lacks) leaves this table as it was
                if n == 0:
                    continue
                other = real.subset(slice(0, max(1, n // 2))).with_features(pl.lit(1).alias("extra_col"))
                expect_raise(tag + " append(table with an extra column)", lambda: real.append(other), (ValueError,))
            elif kind == "index-range":
                expect_raise(tag + " subset(n)", lambda: real.subset(n + (op["n"] % 3)), (IndexError,))
                expect_raise(tag + " subset(-1)", lambda: real.subset(-1 - (op["n"] % 3)), (IndexError,))
        else:
            raise HarnessError(f"unknown op {name}")
        if not check_all(tag):
            return out
    return out


# ------------------------------------------------------------------ strategies

ivals = st.integers(0, 3)
fvals = st.sampled_from([0.0, 0.25, 0.5, 1.5, 2.0, -1.0, 3.75])
svals = st.sampled_from(["p", "q", "r", "st", "Q"])


def values_for(kind):
    base = {"int": ivals, "float": fvals, "str": svals, "bool": st.booleans()}[kind]
    return st.lists(st.one_of(base, base, base, st.none()), min_size=1, max_size=8)


@st.composite
def table_spec(draw, min_rows=0, min_cols=0, palette=("ia", "ib", "fa", "fb", "sa", "sb", "ba")):
    cols = draw(st.lists(st.sampled_from(list(palette)), unique=True, min_size=min(min_cols, len(palette)), max_size=3))
    n = draw(st.one_of(st.integers(min_rows, 8), st.sampled_from([min_rows, min_rows, 1, 2])))
    return {"n": n, "cols": cols,
            "vals": {c: draw(values_for(COLS[c])) for c in cols}, "untyped_empty": draw(st.booleans())}


pred = st.fixed_dictionaries({"ci": st.integers(0, 5), "kind": st.sampled_from(["gt", "le", "eq", "is_null"]),
                              "ival": ivals, "fval": fvals, "sval": svals, "bval": st.booleans()})
T = st.integers(0, 11)
masks = st.lists(st.booleans(), max_size=8)


@st.composite
def op_strategy(draw, palette):
    name = draw(st.sampled_from(["new", "copy", "subset", "subset", "filter", "filter", "sort", "head", "tail",
                                 "sample", "concat", "concat", "concat_with", "append", "alias_append", "df_append_df", "with_features", "drop_features",
                                 "group_by", "cutby", "reject"]))
    op = {"op": name, "t": draw(T)}
    if name == "new":
        op["spec"] = draw(table_spec(palette=palette))
    elif name == "subset":
        op["kind"] = draw(st.sampled_from(["int", "slice", "list", "array", "mask", "mask-list", "mask-series"]))
        op["i"] = draw(st.integers(0, 20))
        op["start"] = draw(st.one_of(st.none(), st.integers(-9, 9)))
        op["stop"] = draw(st.one_of(st.none(), st.integers(-9, 9)))
        op["step"] = draw(st.sampled_from([None, 1, 2, 3, -1, -2]))
        op["idx"] = draw(st.lists(st.integers(0, 40), max_size=6))
        op["mask"] = draw(masks)
    elif name == "filter":
        op["kind"] = draw(st.sampled_from(["expr", "expr", "mask"]))
        op["pred"] = draw(pred)
        op["mask"] = draw(masks)
    elif name == "sort":
        op["keys"] = draw(st.lists(st.integers(0, 5), min_size=1, max_size=2))
        op["desc"] = draw(st.booleans())
    elif name in ("head", "tail"):
        op["n"] = draw(st.integers(0, 12))
    elif name == "sample":
        op["n"] = draw(st.integers(0, 12))
        op["seed"] = draw(st.integers(0, 1000))
    elif name in ("concat", "concat_with", "append"):
        op["t2"] = draw(T)
        op["t3"] = draw(T)
        op["three"] = draw(st.booleans())
        op["nullable"] = draw(st.booleans())
        op["as_iter"] = draw(st.sampled_from([0, 0, 1, 2]))
    elif name == "df_append_df":
        op["n"] = draw(st.integers(0, 12))
        op["n2"] = draw(st.integers(0, 12))
        op["mask"] = draw(masks)
    elif name == "alias_append":
        op["how"] = draw(st.sampled_from(["copy", "concat1", "concat_with_empty"]))
        op["target"] = draw(st.integers(0, 1))
    elif name in ("with_features", "drop_features"):
        op["ci"] = draw(st.integers(0, 5))
        op["lit"] = draw(st.integers(0, 2)) == 0
    elif name == "group_by":
        op["keys"] = draw(st.lists(st.integers(0, 5), min_size=1, max_size=2))
    elif name == "cutby":
        op["ci"] = draw(st.integers(0, 5))
        op["bins"] = draw(st.lists(st.sampled_from([-0.5, 0.1, 0.3, 1.0, 1.7, 2.5]), min_size=1, max_size=3))
    elif name == "reject":
        op["kind"] = draw(st.sampled_from(["wrong-length", "coord-name", "append-non-molecules", "index-range", "append-extra-column", "append-extra-column"]))
        op["n"] = draw(st.integers(0, 5))
    return op


@st.composite
def cases(draw):
    palette = draw(st.lists(st.sampled_from(["ia", "ib", "fa", "fb", "sa", "sb", "ba"]), unique=True, min_size=2, max_size=4))
    return {"init": draw(table_spec(min_rows=1, min_cols=draw(st.sampled_from([0, 1, 2, 2, 2])), palette=palette)),
            "ops": draw(st.lists(op_strategy(palette), min_size=1, max_size=10))}


def nontrivial(d):
    names = [o["op"] for o in d["ops"]]
    return (len(names) >= 3 and any(n in DF_OPS for n in names) and any(n in NP_OPS for n in names)
            and len(d["init"]["cols"]) >= 2)


def labels(d):
    labs = {f"op:{o['op']}" + (f"/{o['kind']}" if o["op"] in ("subset", "reject") else "") for o in d["ops"]}
    labs.add(f"init-cols:{len(d['init']['cols'])}")
    if any(v is None for vs in d["init"]["vals"].values() for v in vs):
        labs.add("init:has-nulls")
    return sorted(labs)


def engines():
    return [Engine("history", judge, strategy=cases(), nontrivial=nontrivial, labels=labels,
                   cases={"quick": 600, "thorough": 40000}, shards={"quick": 4, "thorough": 16})]
