"""C01 - Alignment moves each molecule onto the true particle pose."""
from __future__ import annotations

import math
import warnings

import numpy as np
from hypothesis import strategies as st
from scipy.spatial.transform import Rotation

from vlib import gen, planted
from vlib.runner import Engine, viol, HarnessError

PROPERTY = "C01"
RULE = ("Hypothesis draws an asymmetric Gaussian-blob template (box 16..22, odd/even/non-cubic), a pixel scale, "
        "interpolation order, model in ZNCC/NCC/PCC, a searched rotation set (Rotation object with K=1..5 members "
        ">= 25 deg apart incl. identity, or single-axis (max, step) ranges, or isotropic ranges), max_shifts (scalar "
        "or tuple, nm), 1..4 particles with planted poses (p*, R*) rendered analytically into the tomogram, and for "
        "each particle a perturbation (m, k): input molecule R_m = R* q_k^-1, p = p* - scale R_m m with |m_i| <= "
        "max_shifts_i in the input-molecule frame; loader kind single / batch / group / mock / multi-template / "
        "template-free. Oracle: output position = p* within 0.25 px, orientation = R* within 1e-3 rad, shift / "
        "rotation / score features describe (m, q_k). Non-trivial = q_k != identity and |m| >= 0.5 px.")
TOLERANCES = {"position": "0.25 px * scale (template-free: 0.2 + 0.2*|m| px, the average carries a 1/n ghost of the displaced particle)", "orientation": "1e-3 rad", "align-d? features": "0.15 px*scale + 0.01",
              "align-d?rot features": "2e-4", "score": ">= 0.9 (ZNCC/NCC)"}
ASSUMPTIONS = ["for isotropic (max, step) ranges the candidate list is taken from acryo._rotation.normalize_rotations (its grid is C06's business)",
               "blob density stays inside the ball inscribed in the box under every searched rotation and shift"]
RULE += (" " + "Also: several templates handed to loader.align as a list or a 4-D stack (the general entry point forwarding to the multi-template route).")

MODELS = ["ZNCC", "NCC", "PCC"]


def get_model(name):
    from acryo import alignment as al
    return {"ZNCC": al.ZNCCAlignment, "NCC": al.NCCAlignment, "PCC": al.PCCAlignment}[name]


def rotation_candidates(spec):
    """-> (argument to pass as rotations=, list of scipy Rotations in candidate order or None if K=1)"""
    if spec["kind"] == "none":
        return None, [Rotation.identity()]
    if spec["kind"] == "object":
        rots = Rotation.from_rotvec(np.array(spec["list"], dtype=np.float64))
        return rots, [rots[i] for i in range(len(rots))]
    if spec["kind"] == "axis":
        a = spec["axis"]  # 0=z,1=y,2=x
        rng = [(0.0, 0.0)] * 3
        rng[a] = (spec["max"], spec["step"])
        n = int(spec["max"] / spec["step"])
        cands = []
        for j in range(-n, n + 1):
            rv = np.zeros(3)
            rv[a] = math.radians(j * spec["step"])
            cands.append(Rotation.from_rotvec(rv))
        return tuple(rng), cands
    if spec["kind"] == "iso":
        from acryo._rotation import normalize_rotations
        arg = (spec["max"], spec["step"])
        quats = normalize_rotations(arg)
        return arg, [Rotation.from_quat(q) for q in quats]
    raise HarnessError(f"rotation spec {spec}")


def build_case(d):
    """-> dict with template(s), tomograms, molecules (with uid feature), truth arrays."""
    from acryo import Molecules
    import polars as pl

    shape = tuple(d["shape"])
    scale = d["scale"]
    templates = [planted.render_template(b, shape) for b in d["blobsets"]]
    # equal-energy templates: PCC scores are not normalised, so template choice by score is only
    # meaningful between templates of the same L2 norm (C06 covers the unequal case)
    templates = [(t / np.linalg.norm(t) * 10.0).astype(np.float32) for t in templates]
    rot_arg, cands = rotation_candidates(d["rots"])
    parts = d["particles"]
    n = len(parts)
    S = d["cell"]
    ntomo = d["ntomo"]
    tomo_of = [p["tomo"] % ntomo for p in parts]
    counts = [tomo_of.count(t) for t in range(ntomo)]
    slot = []
    seen = [0] * ntomo
    for t in tomo_of:
        slot.append(seen[t])
        seen[t] += 1
    tomos = [np.zeros((S, S, S * max(1, counts[t])), dtype=np.float64) for t in range(ntomo)]
    pstar, Rstar, pin, Rin, mtrue, ktrue = [], [], [], [], [], []
    for i, p in enumerate(parts):
        cpx = np.array([S / 2 + p["off"][0], S / 2 + p["off"][1], slot[i] * S + S / 2 + p["off"][2]])
        Rs = Rotation.from_rotvec(p["Rstar"]["rv"])
        planted.render_at(d["blobsets"][p["tmpl"] % len(templates)], tomos[tomo_of[i]].shape, cpx, Rs, out=tomos[tomo_of[i]])
        k = p["k"] % len(cands)
        q = cands[k]
        Rm = Rs * q.inv()
        m = np.asarray(p["m"], dtype=np.float64)
        pstar.append(cpx * scale)
        Rstar.append(Rs)
        Rin.append(Rm)
        pin.append(cpx * scale - scale * Rm.apply(m))
        mtrue.append(m)
        ktrue.append(k)
    tomos = [t.astype(np.float32) for t in tomos]
    feats = pl.DataFrame({"uid": list(range(n)), "g": [p["grp"] % 2 for p in parts]})
    mole = Molecules(np.array(pin), Rotation.concatenate(Rin) if n > 1 else Rotation.from_quat(Rin[0].as_quat()[None]),
                     features=feats)
    return dict(templates=templates, tomos=tomos, tomo_of=tomo_of, mole=mole, pstar=np.array(pstar), Rstar=Rstar,
                m=np.array(mtrue), k=ktrue, cands=cands, rot_arg=rot_arg, shape=shape)


class GroupTemplateFreeMismatch(Exception):
    pass


def run_alignment(d, c):
    """returns aligned Molecules (rows matched through uid) for the loader kind."""
    from acryo import SubtomogramLoader, BatchLoader, Molecules, MockLoader

    Model = get_model(d["model"])
    scale, order = d["scale"], d["order"]
    ms_px = d["max_shifts"]
    ms = tuple(m * scale for m in ms_px) if d["ms_form"] == "tuple" else ms_px[0] * scale
    kw = {}
    if c["rot_arg"] is not None:
        kw["rotations"] = c["rot_arg"]
    kind = d["loader"]
    tmpl = c["templates"][0]
    mole = c["mole"]
    n = len(mole)

    def single(i_tomo, idx):
        return SubtomogramLoader(c["tomos"][i_tomo], mole.subset(idx), order=order, scale=scale)

    if kind in ("single", "multi", "notemplate", "group"):
        # all particles were planted in tomogram 0 for these kinds
        loader = SubtomogramLoader(c["tomos"][0], mole, order=order, scale=scale)
    elif kind == "batch":
        loader = BatchLoader(order=order, scale=scale)
        for t in range(len(c["tomos"])):
            idx = [i for i in range(n) if c["tomo_of"][i] == t]
            if idx:
                loader.add_tomogram(c["tomos"][t], mole.subset(idx), image_id=t)
    elif kind == "mock":
        loader = MockLoader(tmpl, mole, order=order, scale=scale)
    else:
        raise HarnessError(kind)

    if kind == "multi":
        via = d.get("multi_via", "multi")
        if via == "align-list" and len(c["templates"]) > 1:
            # several templates handed to the general entry point, which forwards to the multi-template route
            out = loader.align(list(c["templates"]), max_shifts=ms, alignment_model=Model, **kw)
        elif via == "align-stack" and len(c["templates"]) > 1:
            out = loader.align(np.stack(c["templates"], axis=0), max_shifts=ms, alignment_model=Model, **kw)
        else:
            out = loader.align_multi_templates(list(c["templates"]), max_shifts=ms, alignment_model=Model, **kw)
        return out.molecules
    if kind == "notemplate":
        out = loader.align_no_template(max_shifts=ms, output_shape=c["shape"], alignment_model=Model, **kw)
        ref_avg = loader.average(c["shape"])
        out2 = loader.align(ref_avg, max_shifts=ms, alignment_model=Model, **kw)
        return out.molecules, out2.molecules
    if kind == "group":
        grp = loader.groupby("g").align(tmpl, max_shifts=ms, alignment_model=Model, **kw)
        out = Molecules.concat([ldr.molecules for _, ldr in grp])
        if d.get("group_nt"):
            # differential: template-free group alignment == group alignment against the group averages
            g0 = loader.groupby("g")
            avg = g0.average(c["shape"])
            a1 = Molecules.concat([ldr.molecules for _, ldr in g0.align_no_template(max_shifts=ms, output_shape=c["shape"], alignment_model=Model)])
            a2 = Molecules.concat([ldr.molecules for _, ldr in g0.align(dict(avg), max_shifts=ms, alignment_model=Model)])
            if not (np.array_equal(a1.pos, a2.pos) and np.allclose(a1.quaternion(), a2.quaternion(), atol=1e-7)
                    and a1.features["uid"].to_list() == a2.features["uid"].to_list()):
                raise GroupTemplateFreeMismatch()
        return out
    out = loader.align(tmpl, max_shifts=ms, alignment_model=Model, **kw)
    return out.molecules


def judge(d):
    out = []
    c = build_case(d)
    kind = d["loader"]
    scale = d["scale"]
    if kind == "mock":
        # MockLoader: the true pose is position 0 / identity rotation by definition
        c["pstar"] = np.zeros_like(c["pstar"])
        mole = c["mole"]
        from acryo import Molecules
        import polars as pl
        pin, Rin = [], []
        for i in range(len(mole)):
            q = c["cands"][c["k"][i]]
            Rm = q.inv()
            Rin.append(Rm)
            pin.append(-scale * Rm.apply(c["m"][i]))
        c["Rstar"] = [Rotation.identity()] * len(mole)
        c["mole"] = Molecules(np.array(pin), Rotation.concatenate(Rin) if len(Rin) > 1 else Rotation.from_quat(Rin[0].as_quat()[None]),
                              features=mole.features)
    with warnings.catch_warnings():
        warnings.simplefilter("ignore")
        try:
            res = run_alignment(d, c)
        except GroupTemplateFreeMismatch:
            out.append(viol("C01/group-template-free-differs", f"{d['model']} loader=group: LoaderGroup.align_no_template != LoaderGroup.align(group averages)"))
            return out
    res2 = None
    if kind == "notemplate":
        res, res2 = res
    n = len(c["mole"])
    tag0 = (f"{d['model']} loader={kind} shape={c['shape']} scale={scale} order={d['order']} rots={d['rots']['kind']}(K={len(c['cands'])}) "
            f"max_shifts_px={d['max_shifts']}({d['ms_form']})")
    if len(res) != n:
        out.append(viol("C01/length", f"{tag0}: {len(res)} molecules returned for {n}"))
        return out
    uid = res.features["uid"].to_list()
    if sorted(uid) != list(range(n)):
        out.append(viol("C01/uids", f"{tag0}: uid column after alignment = {uid}"))
        return out
    ptol = 0.25 * scale
    if kind == "notemplate":
        # the template is the average of n particles of which one is displaced: a 1/n ghost of the displaced copy
        # biases its shift estimate by about |m|/n
        mmax = float(np.abs(c["m"]).max())
        ptol = (0.2 + 0.2 * mmax) * scale
    for row, i in enumerate(uid):
        tag = f"{tag0} particle {i}: planted k={c['k'][i]} m_px={np.round(c['m'][i], 3).tolist()}"
        perr = float(np.abs(res.pos[row].astype(np.float64) - c["pstar"][i]).max())
        if not perr <= ptol:
            out.append(viol(f"C01/position:{kind}", f"{tag}: output position off by {perr / scale:.3f} px "
                            f"(out={np.round(res.pos[row] / scale, 3).tolist()} true={np.round(c['pstar'][i] / scale, 3).tolist()})",
                            err=perr / scale))
        aerr = planted.angle(res.rotator[row], c["Rstar"][i])
        if not aerr <= 1e-3:
            out.append(viol(f"C01/orientation:{kind}", f"{tag}: output orientation off by {math.degrees(aerr):.3f} deg", err=aerr))
        f = res.features
        dz = np.array([f["align-dz"][row], f["align-dy"][row], f["align-dx"][row]], dtype=np.float64)
        ferr = float(np.abs(dz - c["m"][i] * scale).max())
        if not ferr <= (ptol + 0.01 if kind == "notemplate" else 0.15 * scale + 0.01):
            out.append(viol("C01/shift-features", f"{tag}: align-dz/dy/dx = {dz.tolist()} but the pose change is {np.round(c['m'][i] * scale, 3).tolist()} nm"))
        rv = np.array([f["align-dzrot"][row], f["align-dyrot"][row], f["align-dxrot"][row]], dtype=np.float64)
        want = c["cands"][c["k"][i]].as_rotvec()
        if not np.abs(rv - want).max() <= 2e-4:
            out.append(viol("C01/rotation-features", f"{tag}: align-d?rot = {rv.tolist()} but the searched rotation is {np.round(want, 5).tolist()}"))
        sc = float(f["score"][row])
        if not np.isfinite(sc) or (d["model"] in ("ZNCC", "NCC") and kind != "notemplate" and not sc >= 0.9):
            out.append(viol("C01/score", f"{tag}: score {sc:.3f}"))
        if kind == "multi":
            lab = int(f["labels"][row])
            want_t = d["particles"][i]["tmpl"] % len(c["templates"])
            if lab != want_t:
                out.append(viol("C01/template-label", f"{tag}: labels={lab} but the particle was made from template {want_t}"))
    if res2 is not None:
        if not (np.array_equal(res.pos, res2.pos) and np.allclose(res.quaternion(), res2.quaternion(), atol=1e-7)):
            out.append(viol("C01/template-free-differs", f"{tag0}: align_no_template != align(average)"))
    return out


@st.composite
def cases(draw, kinds=("single", "batch", "group", "mock", "multi", "notemplate"), force_T=None, force_rots=None, nmax=4):
    kind = draw(st.sampled_from(list(kinds)))
    model = draw(st.sampled_from(MODELS))
    par = draw(st.sampled_from(["odd", "even", "mixed", "cubic"]))
    shape = draw(gen.box_shapes(16, 22, classes=(par,)))
    scale = draw(gen.scales)
    order = draw(st.sampled_from([1, 3, 3]))
    # search range (pixels)
    mform = draw(st.sampled_from(["scalar", "tuple"]))
    # the blobs need radius >= 2.5 px (asymmetry) + 2.6 sigma containment + the shift inside the inscribed ball
    cap = min(2.2, (min(shape) - 1) / 2 - 0.5 - 5.2)
    if mform == "scalar":
        m0 = round(draw(st.floats(0.6, cap)), 2)
        ms = [m0, m0, m0]
    else:
        ms = [round(draw(st.floats(0.6, cap)), 2) for _ in range(3)]
    rkind = "none" if kind == "notemplate" else draw(st.sampled_from(["object", "object", "axis", "iso", "none"]))
    if rkind == "object":
        lst = planted.rotation_set(draw, kmax=5)
        rots = {"kind": "object", "list": lst} if len(lst) > 1 else {"kind": "none"}
    elif rkind == "axis":
        step = float(draw(st.sampled_from([25, 30, 40])))
        rots = {"kind": "axis", "axis": draw(st.integers(0, 2)), "max": step * draw(st.integers(1, 2)), "step": step}
    elif rkind == "iso":
        step = float(draw(st.sampled_from([25, 30])))
        rots = {"kind": "iso", "max": step, "step": step}
    else:
        rots = {"kind": "none"}
    if force_rots is not None:
        rots = dict(force_rots)
    rmax = (min(shape) - 1) / 2 - max(ms) - 0.5
    T = draw(st.sampled_from([1, 2, 2, 3, 3])) if kind == "multi" else 1
    if force_T is not None:
        T = force_T
    blobsets = [draw(planted.blob_offsets(rmax, variant=v)) for v in range(T)]
    if kind == "notemplate":
        n = 8
    else:
        n = draw(st.integers(1, nmax))
    ntomo = draw(st.integers(2, 3)) if kind == "batch" else 1
    diag = math.sqrt(sum(s * s for s in shape))
    cell = int(math.ceil(diag + 2 * max(ms) + 2 * 3 + 6))
    parts = []
    for i in range(n):
        mcls = draw(st.sampled_from(["zero", "interior", "interior", "edge", "edge"]))
        if kind == "notemplate" and i > 0:
            mcls = "zero"
        m = []
        for lim in ms:
            if mcls == "zero":
                m.append(0.0)
            elif mcls == "interior":
                m.append(round(draw(st.floats(-0.8 * lim, 0.8 * lim)), 3))
            else:
                m.append(round(draw(st.floats(0.8 * lim, lim)) * draw(st.sampled_from([-1.0, 1.0])), 3))
        parts.append({
            "off": [round(draw(st.floats(-0.5, 0.5)), 3) for _ in range(3)],
            "Rstar": draw(gen.rotvecs()),
            "m": m, "mcls": mcls,
            "k": 0 if kind == "notemplate" else draw(st.integers(1, 40 if force_rots is None else 400)),
            "tmpl": draw(st.integers(0, 2)), "tomo": i if i < ntomo else draw(st.integers(0, 2)),
            "grp": i if i < 2 else draw(st.integers(0, 1)),
        })
    return {"loader": kind, "model": model, "shape": shape, "scale": scale, "order": order, "max_shifts": ms,
            "ms_form": mform, "rots": rots, "blobsets": blobsets, "particles": parts, "ntomo": ntomo, "cell": cell,
            "group_nt": draw(st.booleans()), "multi_via": draw(st.sampled_from(["multi", "align-list", "align-stack"]))}


def n_candidates(d):
    r = d["rots"]
    if r["kind"] == "none":
        return 1
    if r["kind"] == "object":
        return len(r["list"])
    n = int(r["max"] / r["step"])
    return 2 * n + 1 if r["kind"] == "axis" else (2 * n + 1) ** 3


def identity_index(d):
    r = d["rots"]
    if r["kind"] in ("none", "object"):
        return 0
    n = int(r["max"] / r["step"])
    return n if r["kind"] == "axis" else ((2 * n + 1) ** 3) // 2


def nontrivial(d):
    if d["loader"] == "notemplate":
        return any(max(abs(v) for v in p["m"]) >= 0.5 for p in d["particles"])
    K = n_candidates(d)
    idn = identity_index(d)
    return any((p["k"] % K) != idn and max(abs(v) for v in p["m"]) >= 0.5 for p in d["particles"])


def labels(d):
    labs = set(gen.parity_class(d["shape"]))
    labs |= {f"loader:{d['loader']}", f"model:{d['model']}", f"rots:{d['rots']['kind']}", f"K:{min(n_candidates(d), 27)}",
             f"ms:{d['ms_form']}", "scale:1" if d["scale"] == 1.0 else "scale:other", f"order:{d['order']}"}
    for p in d["particles"]:
        labs.add(f"m:{p['mcls']}")
        labs.add(f"R*:{p['Rstar']['cls']}")
    return sorted(labs)


def engines():
    e = []
    for kind, q, t in (("single", 60, 900), ("batch", 30, 400), ("group", 30, 400), ("mock", 30, 400), ("multi", 40, 400),
                       ("notemplate", 10, 200)):
        e.append(Engine(kind, judge, strategy=cases((kind,)), nontrivial=nontrivial, labels=labels,
                        cases={"quick": q, "thorough": t}, shards={"quick": 3, "thorough": 8},
                        shrink={"quick": False, "thorough": True}))
    return e
