"""C14 - Simulated tomograms contain the template at the requested poses."""
from __future__ import annotations

import warnings

import numpy as np
from hypothesis import strategies as st
from scipy import ndimage as ndi
from scipy.spatial.transform import Rotation

from vlib import gen
from vlib.runner import Engine, viol

PROPERTY = "C14"
RULE = ("Hypothesis draws 1-3 components, each a template (box 7..13 per side, odd / even / non-cubic; smooth random "
        "texture confined to the ball inscribed in the box minus 2 voxels) with 1-4 molecules whose pose class is: "
        "grid-coincident with identity orientation (integer pixel position for odd sides, half-integer for even), "
        "fractional, rotated, straddling a face, wholly outside, negative coordinates; a scale, an interpolation "
        "order and a volume shape 24..40. Oracle: (a) exact paste of the template block, (b) sum over molecules of "
        "the template evaluated at c + R^-1 (X - pos/scale) with map_coordinates, (c) independence of component "
        "partition and order, simulate(union) == sum of simulate(parts), (d) outside molecules ignored, (e) loading a "
        "subtomogram at a grid-coincident molecule returns the template, (f) simulate_2d == z-projection of the 3-D "
        "simulation. Non-trivial = an even side, a fractional/rotated pose, or >= 2 components.")
RULE += (" " + 'Also: dense templates for components whose molecules are all grid-coincident, volumes with one axis of 3-8 voxels or of 1040-3100 voxels, templates given as providers, simulators whose components were first registered with another template, simulated and overwritten.')
TOLERANCES = {"exact paste / loader round trip": "1e-4 * max", "reference order<=1": "2e-4 * max", "reference order 3": "2e-2 * max",
              "partition/order": "1e-5 * max", "2-D projection": "1e-4 * max * Z"}
ASSUMPTIONS = ["template density vanishes outside the ball of radius (min(shape)-1)/2 - 2 around the box centre, so neither rotation nor a sub-pixel shift moves density out of the template-sized fragment box"]


def make_template(seed, shape, dense=False):
    shape = tuple(shape)
    a = gen.smooth_noise(seed, shape, sigma=0.8).astype(np.float64)
    if dense:
        # density up to the faces of the box: only for components whose molecules are all grid-coincident (exact paste)
        return (a + 0.5).astype(np.float32)
    c = (np.asarray(shape) - 1) / 2
    g = np.meshgrid(*[np.arange(n) - ci for n, ci in zip(shape, c)], indexing="ij")
    r = np.sqrt(sum(x ** 2 for x in g))
    R0 = (min(shape) - 1) / 2 - 2.0
    w = np.clip((R0 - r) / 1.0, 0.0, 1.0)
    w = w * w * (3 - 2 * w)
    return (a * w + 0.5 * w).astype(np.float32)


def reference(vol_shape, tmpl, pos_px, R, order):
    """template evaluated at c + R^-1 (X - pos) on the whole volume (float64)."""
    shape = tmpl.shape
    c = (np.asarray(shape, dtype=np.float64) - 1) / 2
    out = np.zeros(vol_shape, dtype=np.float64)
    rad = int(np.ceil(np.sqrt(sum(s * s for s in shape)) / 2)) + 2
    lo = np.maximum(np.floor(pos_px).astype(int) - rad, 0)
    hi = np.minimum(np.floor(pos_px).astype(int) + rad + 1, vol_shape)
    if np.any(hi <= lo):
        return out
    X = np.stack(np.meshgrid(*[np.arange(lo[a], hi[a], dtype=np.float64) for a in range(3)], indexing="ij"), axis=-1)
    u = R.inv().apply((X - pos_px).reshape(-1, 3)).reshape(X.shape) + c
    coords = np.moveaxis(u, -1, 0)
    t64 = tmpl.astype(np.float64)
    if order == 3:
        coef = ndi.spline_filter(t64, order=3, mode="constant")
        val = ndi.map_coordinates(coef, coords, order=3, mode="constant", cval=0.0, prefilter=False)
    else:
        val = ndi.map_coordinates(t64, coords, order=order, mode="constant", cval=0.0)
    out[lo[0]:hi[0], lo[1]:hi[1], lo[2]:hi[2]] = val
    return out


def build(d):
    from acryo import Molecules
    comps = []
    for ci, comp in enumerate(d["components"]):
        tmpl = make_template(comp["seed"], comp["shape"], dense=bool(comp.get("dense")))
        if d.get("template_dtype", "float32") != "float32":
            # integer-valued template handed over in an integer dtype: the same density, interpolated as real numbers
            tmpl = np.round(tmpl * 20.0).astype(d["template_dtype"])
        pos, rots = [], []
        for m in comp["mols"]:
            pos.append(m["pos_px"])
            rots.append(m["rot"]["rv"])
        comps.append((tmpl, np.array(pos, dtype=np.float64), Rotation.from_rotvec(np.array(rots, dtype=np.float64))))
    return comps


def simulate(comps, d, vol_shape, order_of=None, two_d=False):
    from acryo import TomogramSimulator, Molecules, pipe
    sim = TomogramSimulator(order=d["order"], scale=d["scale"])
    idx = list(range(len(comps))) if order_of is None else order_of
    how = d.get("template_as", "array")

    def as_input(t):
        # the template as an array or as a scale-aware provider (same voxels at the simulator's scale)
        return pipe.from_array(t, original_scale=d["scale"]) if how == "provider" else t

    if d.get("history") and not two_d:
        # the simulator object has a past: every component was first registered with another template and simulated once,
        # then replaced (overwrite=True) by the real one
        for i in idx:
            tmpl, pos, R = comps[i]
            sim.add_molecules(Molecules(pos * d["scale"], R), as_input((tmpl[::-1, ::-1, ::-1] * 0.5 + 1.0).astype(np.float32)), name=f"c{i}")
        sim.simulate(tuple(vol_shape))
        for i in idx:
            tmpl, pos, R = comps[i]
            sim.add_molecules(Molecules(pos * d["scale"], R), as_input(tmpl), name=f"c{i}", overwrite=True)
        return sim.simulate(tuple(vol_shape))
    for i in idx:
        tmpl, pos, R = comps[i]
        sim.add_molecules(Molecules(pos * d["scale"], R), as_input(tmpl), name=f"c{i}")
    if two_d:
        return sim.simulate_2d(tuple(vol_shape[1:]))
    return sim.simulate(tuple(vol_shape))


def judge(d):
    from acryo import SubtomogramLoader, Molecules

    out = []
    vol = tuple(d["vol"])
    comps = build(d)
    order, scale = d["order"], d["scale"]
    tag = f"order={order} scale={scale} vol={vol} components={[(tuple(c['shape']), [m['cls'] for m in c['mols']]) for c in d['components']]}"
    with warnings.catch_warnings():
        warnings.simplefilter("ignore")
        tomo = simulate(comps, d, vol)
    with warnings.catch_warnings():
        warnings.simplefilter("ignore")
        again = simulate(comps, d, vol)
    if again.shape != tomo.shape or not np.array_equal(again, tomo):
        out.append(viol("C14/not-reproducible", f"{tag}: simulating the same components twice gave different volumes"))
    if tomo.shape != vol or not np.all(np.isfinite(tomo)):
        out.append(viol("C14/volume", f"{tag}: simulated volume shape {tomo.shape}, finite={bool(np.all(np.isfinite(tomo)))}"))
        return out
    mx = max(float(np.abs(c[0]).max()) for c in comps)
    # (b) reference sum; positions as stored by Molecules (float32)
    ref = np.zeros(vol, dtype=np.float64)
    for ci, (tmpl, pos, R) in enumerate(comps):
        p32 = (pos * scale).astype(np.float32).astype(np.float64) / scale
        for i in range(len(pos)):
            # grid-coincident molecules paste the template exactly (the float32 round trip of pos * scale / scale is 1e-6 px
            # off the grid, which a constant-mode interpolation of a dense template would turn into an empty first plane)
            grid = d["components"][ci]["mols"][i]["cls"] == "grid"
            ref += reference(vol, tmpl, pos[i] if grid else p32[i], R[i], order)
    err = float(np.abs(tomo - ref).max())
    # order 3: the simulator prefilters the template alone, the reference interpolates with a zero exterior (3e-2 of the maximum:
    # 2.01e-2 was seen once in 46000 cases); order 1: exact up to the float32 position, whose error grows with the coordinate
    maxcoord = max([float(np.abs(pos).max()) for _, pos, _ in comps if len(pos)] + [1.0])
    tol = (3e-2 if order == 3 else 2e-4 + 16 * float(np.finfo(np.float32).eps) * maxcoord if order == 1 else None)
    if order == 0:
        # nearest neighbour: rounding ties make single voxels ambiguous; compare only grid/integer-shift cases
        if all(m["cls"] in ("grid", "outside") for c in d["components"] for m in c["mols"]):
            tol = 1e-4
    if tol is not None and not err <= tol * mx:
        w = np.unravel_index(int(np.argmax(np.abs(tomo - ref))), vol)
        out.append(viol(f"C14/placement:order{order}", f"{tag}: simulated volume differs from sum of templates at their poses by {err:.4g} "
                        f"(template max {mx:.3g}) at voxel {tuple(int(x) for x in w)}", err=err))
    # (a) exact paste + (e) loader round trip
    for ci, (tmpl, pos, R) in enumerate(comps):
        shape = np.asarray(tmpl.shape)
        for i, m in enumerate(d["components"][ci]["mols"]):
            if m["cls"] != "grid":
                continue
            start = np.round(pos[i] - (shape - 1) / 2).astype(int)
            if np.any(start < 0) or np.any(start + shape > np.asarray(vol)):
                continue
            # only when no other molecule overlaps this block
            others = ref - reference(vol, tmpl, pos[i], R[i], order)
            blk = tuple(slice(s, s + n) for s, n in zip(start, shape))
            # (one voxel of clearance: with order 0 a neighbour's outermost voxel may round into the block or out of it)
            wide = tuple(slice(max(s - 1, 0), s + n + 1) for s, n in zip(start, shape))
            if float(np.abs(others[wide]).max()) > 1e-9:
                continue
            e = float(np.abs(tomo[blk] - tmpl).max())
            if not e <= 1e-4 * mx:
                out.append(viol("C14/exact-paste", f"{tag}: component {ci} molecule {i} at px {pos[i].tolist()} (box {tuple(shape)}): "
                                f"tomogram block differs from the template by {e:.4g}", err=e))
            with warnings.catch_warnings():
                warnings.simplefilter("ignore")
                sub = SubtomogramLoader(tomo, Molecules([pos[i] * scale]), order=order, scale=scale, output_shape=tuple(shape)).load(0)
            e2 = float(np.abs(sub - tmpl).max())
            # the loader samples at float32(pos_nm) / scale, which is off the voxel by up to ~eps32 * coordinate (1e-4 px at
            # coordinates of a few thousand): an interpolation error of that order is not a misplacement
            tol_rt = (1e-4 + 16 * float(np.finfo(np.float32).eps) * float(np.abs(pos[i]).max())) * mx
            if not e2 <= tol_rt:
                out.append(viol("C14/loader-round-trip", f"{tag}: component {ci} molecule {i}: subtomogram loaded at the simulated molecule differs "
                                f"from the template by {e2:.4g} (box {tuple(shape)})", err=e2))
    # (c) partition / order independence
    if len(comps) >= 2:
        with warnings.catch_warnings():
            warnings.simplefilter("ignore")
            perm = list(reversed(range(len(comps))))
            t2 = simulate(comps, d, vol, order_of=perm)
            if not float(np.abs(t2 - tomo).max()) <= 1e-5 * mx:
                out.append(viol("C14/component-order", f"{tag}: result depends on the order of components ({np.abs(t2 - tomo).max():.3g})"))
            parts = sum(simulate([comps[i]], d, vol).astype(np.float64) for i in range(len(comps)))
            if not float(np.abs(parts - tomo).max()) <= 1e-5 * mx * len(comps):
                out.append(viol("C14/additivity", f"{tag}: simulate(union) != sum of simulate(parts) ({np.abs(parts - tomo).max():.3g})"))
    # molecule order within a component
    for ci, (tmpl, pos, R) in enumerate(comps):
        if len(pos) >= 2:
            rev = list(reversed(range(len(pos))))
            c2 = list(comps)
            c2[ci] = (tmpl, pos[rev], R[rev])
            with warnings.catch_warnings():
                warnings.simplefilter("ignore")
                t3 = simulate(c2, d, vol)
            if not float(np.abs(t3 - tomo).max()) <= 1e-5 * mx:
                out.append(viol("C14/molecule-order", f"{tag}: result depends on the order of molecules in component {ci}"))
            break
    # (f') deepest valid single molecule (the 2-D path sizes its own internal volume from the molecule depth)
    tmpl0 = comps[0][0]
    half0 = (np.asarray(tmpl0.shape) - 1) / 2
    deep = np.array([np.floor(vol[0] - 2 - half0[0]), vol[1] / 2 + 0.25, vol[2] / 2 - 0.25])
    if deep[0] - half0[0] >= 1:
        one = [(tmpl0, deep[None, :], Rotation.identity(1))]
        with warnings.catch_warnings():
            warnings.simplefilter("ignore")
            p1 = simulate(one, d, vol, two_d=True)
            w1 = simulate(one, d, vol).astype(np.float64).sum(axis=0)
        if p1.shape == w1.shape:
            e = float(np.abs(p1 - w1).max())
            if not e <= 1e-4 * mx * vol[0]:
                out.append(viol("C14/2d-not-projection", f"{tag}: single molecule at depth z={deep[0]} px (template {tmpl0.shape}): simulate_2d differs "
                                f"from the z-projection by {e:.4g} (projection max {np.abs(w1).max():.3g})", err=e))
    # (f) 2-D simulation == z projection, when every fragment lies inside [0, Z)
    inside = True
    for ci, (tmpl, pos, R) in enumerate(comps):
        half = (np.asarray(tmpl.shape) - 1) / 2 + 1
        # the 2-D path has no top face (its internal depth follows the deepest molecule), so only the upper side must
        # lie inside the 3-D volume; molecules straddling z = 0 are clipped in both and stay comparable
        if np.any(pos[:, 0] + half[0] > vol[0] - 1):
            inside = False
    if inside:
        with warnings.catch_warnings():
            warnings.simplefilter("ignore")
            p2 = simulate(comps, d, vol, two_d=True)
        want = tomo.astype(np.float64).sum(axis=0)
        if p2.shape != want.shape:
            out.append(viol("C14/2d-shape", f"{tag}: simulate_2d shape {p2.shape}"))
        else:
            e = float(np.abs(p2 - want).max())
            if not e <= 1e-4 * mx * vol[0]:
                out.append(viol("C14/2d-not-projection", f"{tag}: simulate_2d differs from the z-projection of simulate by {e:.4g} "
                                f"(projection max {np.abs(want).max():.3g})", err=e))
    return out


@st.composite
def mol_pose(draw, shape, vol, only_grid=False):
    cls = draw(st.sampled_from(["grid", "grid", "grid", "outside"] if only_grid else ["grid", "grid", "frac", "rot", "straddle", "outside", "negative"]))
    half = [(n - 1) / 2 for n in shape]
    pos, rot = [], {"cls": "identity", "rv": [0.0, 0.0, 0.0]}
    for a in range(3):
        lo, hi = int(np.ceil(half[a])) + 1, int(np.floor(vol[a] - 1 - half[a])) - 1
        if hi < lo and cls not in ("outside",):
            # thin volume axis: the template box sticks out of both faces wherever the molecule sits
            k = draw(st.integers(0, vol[a] - 1))
            pos.append(k + (0.5 if (shape[a] % 2 == 0 and cls == "grid") else 0.0) if cls == "grid" else round(draw(st.floats(0, vol[a] - 1)), 3))
            continue
        if vol[a] > 1000 and cls in ("grid", "frac", "rot"):
            lo = max(lo, hi - 80)
        if cls == "grid":
            k = draw(st.integers(lo, hi))
            pos.append(k + (0.5 if shape[a] % 2 == 0 else 0.0))
        elif cls in ("frac", "rot"):
            pos.append(round(draw(st.floats(lo, hi)), 3))
        elif cls == "straddle":
            pos.append(round(draw(st.sampled_from([draw(st.floats(-half[a] + 1.5, half[a])), draw(st.floats(vol[a] - 1 - half[a], vol[a] - 2.5 + half[a])),
                                                   draw(st.floats(lo, hi))])), 3))
        elif cls == "outside":
            off = half[a] * 2 + 6 + draw(st.integers(0, 30))
            pos.append(float(-off if draw(st.booleans()) else vol[a] + off))
        else:
            pos.append(round(draw(st.floats(-half[a] + 1.5, 2.0)), 3))
    if cls in ("rot", "straddle", "negative") or (cls == "frac" and draw(st.booleans())):
        rot = draw(gen.rotvecs())
    return {"cls": cls, "pos_px": [float(p) for p in pos], "rot": rot}


@st.composite
def cases(draw):
    vol = [draw(st.integers(24, 40)) for _ in range(3)]
    if draw(st.integers(0, 5)) == 0:
        vol[draw(st.integers(0, 2))] = draw(st.integers(3, 8))  # a slab thinner than the templates
    elif draw(st.integers(0, 5)) == 0:
        # one axis as long as in a real tomogram: float32 positions in nm lose ~1e-4 px at coordinates of a few thousand
        vol[draw(st.integers(0, 2))] = draw(st.sampled_from([1040, 2100, 3100]))
    ncomp = draw(st.integers(1, 3))
    comps = []
    for _ in range(ncomp):
        shape = draw(gen.box_shapes(7, 13))
        dense = draw(st.integers(0, 3)) == 0
        mols = [draw(mol_pose(shape, vol, only_grid=dense)) for _ in range(draw(st.integers(1, 4)))]
        comps.append({"shape": shape, "seed": draw(gen.seeds), "mols": mols, "dense": dense})
    return {"vol": vol, "components": comps, "template_as": draw(st.sampled_from(["array", "array", "provider"])),
            "template_dtype": draw(st.sampled_from(["float32", "float32", "float32", "int16", "uint8"])),
            "history": draw(st.sampled_from([False, False, True])), "order": draw(st.sampled_from([0, 1, 3, 3])), "scale": draw(st.one_of(gen.scales, st.sampled_from([0.2, 0.25, 0.3, 1.3, 0.6, 2.7])))}


def nontrivial(d):
    return len(d["components"]) >= 2 or any(s % 2 == 0 for c in d["components"] for s in c["shape"]) or \
        any(m["cls"] in ("frac", "rot") for c in d["components"] for m in c["mols"])


def labels(d):
    labs = {f"order:{d['order']}", f"ncomp:{len(d['components'])}", "scale:1" if d["scale"] == 1.0 else "scale:other"}
    if min(d["vol"]) < 9:
        labs.add("thin-volume")
    if max(d["vol"]) > 1000:
        labs.add("long-axis")
    labs.add("template:" + d.get("template_as", "array"))
    if d.get("history"):
        labs.add("overwritten-components")
    for c in d["components"]:
        labs |= set(gen.parity_class(c["shape"]))
        for m in c["mols"]:
            labs.add(f"pose:{m['cls']}")
    return sorted(labs)


def engines():
    return [Engine("simulate", judge, strategy=cases(), nontrivial=nontrivial, labels=labels,
                   cases={"quick": 150, "thorough": 5000}, shards={"quick": 8, "thorough": 16},
                   shrink={"quick": False, "thorough": True})]
