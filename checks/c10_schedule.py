"""C10 - Results do not depend on dask scheduling, threading or chunking."""
from __future__ import annotations

import itertools
import math
import sys
import warnings

import numpy as np
from hypothesis import strategies as st
from scipy.spatial.transform import Rotation

from vlib import gen, sched
from vlib.runner import Engine, viol, HarnessError
from checks import c04_shift

PROPERTY = "C10"
RULE = ("Engine 'differential': a drawn loader computation (asnumpy / average / align / align_multi_templates / score / "
        "construct_landscape / apply) is run under the synchronous scheduler, the threaded scheduler with 1, 2, 4 or 16 "
        "workers, a harness-owned dask scheduler whose task completion order is a drawn sequence, and with the "
        "tomogram as numpy vs a drawn dask chunking; all results must be identical and no error may escape. Engine "
        "'interleave': 2-4 real threads call score / align / landscape on one shared alignment model while every "
        "access to the model's template cache is a schedule point of a cooperative scheduler driven by a drawn "
        "schedule; each thread's result must equal the sequential result. All 2-thread schedules of length 8 over "
        "score are enumerated. Engine 'lazy-shape': construct_landscape(...).shape and construct_dask().shape vs the "
        "computed shape for all four models, scalar/tuple/fractional limits, upsample 1..3, multi-template and "
        "rotation searches. Engine 'preempt': two per-molecule tasks (score / align / landscape) on one shared model run in two real "
        "threads; task A is parked at its k-th interpreter-level schedule point (sys.settrace call / return / line event of an "
        "acryo frame), task B runs to completion, A resumes; k is enumerated over every line-level point for all four models "
        "(cold lru caches) and strided for drawn cases (rotations, wedges, mixed operations, warm caches); both results "
        "must equal the sequential ones bitwise; the same with the loader's own lazy per-molecule tasks (rows of construct_dask / "
        "construct_landscape, align tasks of construct_mapping_tasks; numpy and chunked tomograms). Engine 'alternate': the same task pairs with 2-8 hand-overs at drawn point budgets (A runs s0 points, B s1, A s2, ...). Engine 'stress' (thorough only): real preemption with a 1e-6 s switch interval. "
        "Non-trivial = >= 2 workers/threads with >= 2 tasks sharing one model, a drawn order different from "
        "submission order, or a fractional limit / upsample > 1.")
TOLERANCES = {"loads/align/score/landscape/apply": "bitwise", "average": "1e-6 * range (reduction order)"}
ASSUMPTIONS = ["interleavings inside C extensions (numpy, scipy.fft, polars) and free-threaded builds are not owned by the harness; only the stress engine samples them",
               "preempt engine: one preemption per run (A..B..A); races that need two or more hand-overs inside acryo code are left to the interleave and stress engines",
               "schedule points: every access to TemplateMaskCache._dict (get / set / values iteration) and every attribute write on the shared model object"]


def get_model(name):
    return c04_shift.get_model(name)


def build_loader(d, chunks, perm=None):
    from acryo import SubtomogramLoader, Molecules
    import dask.array as da

    shape = tuple(d["shape"])
    n = d["n"]
    S = max(shape) + 10
    tomo = gen.smooth_noise(d["seed"], (S, S, S * n), sigma=0.9)
    pos = np.array([[S / 2 + o[0], S / 2 + o[1], i * S + S / 2 + o[2]] for i, o in enumerate(d["offs"][:n])])
    R = Rotation.from_rotvec(np.array([r["rv"] for r in d["rots_m"][:n]]))
    img = tomo if chunks is None else da.from_array(tomo, chunks=chunks)
    if perm is not None:
        pos, R = pos[perm], R[perm]
    return SubtomogramLoader(img, Molecules(pos * d["scale"], R), order=d["order"], scale=d["scale"], output_shape=shape)


def compute(d, loader):
    """returns a dict of arrays describing the result of the drawn computation"""
    shape = tuple(d["shape"])
    Model = get_model(d["model"])
    tmpls = [gen.smooth_noise(d["seed"] + 5 + i, shape, sigma=0.9) for i in range(2)]
    kw = {}
    if d["rots"]:
        kw["rotations"] = Rotation.from_rotvec(np.array([[0.0, 0.0, 0.0]] + d["rots"]))
    if d["tilt"] is not None:
        kw["tilt"] = tuple(d["tilt"])
    ms = d["lmax"] * d["scale"]
    comp = d["comp"]
    if comp == "asnumpy":
        return {"subs": loader.asnumpy()}
    if comp == "average":
        return {"avg": loader.average()}
    if comp == "align":
        m = loader.align(tmpls[0], max_shifts=ms, alignment_model=Model, **kw).molecules
        return {"pos": m.pos, "quat": m.quaternion(), "score": m.features["score"].to_numpy()}
    if comp == "multi":
        m = loader.align_multi_templates(tmpls, max_shifts=ms, alignment_model=Model, **kw).molecules
        return {"pos": m.pos, "quat": m.quaternion(), "score": m.features["score"].to_numpy(), "labels": m.features["labels"].to_numpy()}
    if comp == "score":
        return {"score": np.stack(loader.score(tmpls, alignment_model=Model, **{k: v for k, v in kw.items() if k != "rotations"}))}
    if comp == "landscape":
        return {"lds": loader.construct_landscape(tmpls[0], max_shifts=ms, alignment_model=Model, upsample=d["upsample"], **kw).compute()}
    if comp == "apply":
        df = loader.apply([np.mean, np.std, np.max], schema=["mean", "std", "max"])
        return {"apply": df.to_numpy()}
    raise HarnessError(comp)


def same(a, b, key, rng):
    if a.shape != b.shape:
        return False
    if key == "avg":
        return bool(np.abs(a.astype(np.float64) - b.astype(np.float64)).max() <= 1e-6 * rng)
    return bool(np.array_equal(a, b, equal_nan=True))


def judge_differential(d):
    import dask

    out = []
    with warnings.catch_warnings():
        warnings.simplefilter("ignore")
        with dask.config.set(scheduler="synchronous"):
            ref = compute(d, build_loader(d, None))
        rng = float(max(np.abs(v).max() for v in ref.values())) + 1e-9
        variants = []
        for w in d["workers"]:
            variants.append((f"threads({w})", dict(scheduler="threads", num_workers=w), None))
        variants.append((f"owned-order(width={d['width']})", dict(scheduler=sched.owned_get(d["order_choices"], width=d["width"])), None))
        if d["chunks"] is not None:
            ch = tuple(tuple(c) for c in d["chunks"])
            variants.append(("dask-chunked/sync", dict(scheduler="synchronous"), ch))
            variants.append((f"dask-chunked/threads({d['workers'][-1]})", dict(scheduler="threads", num_workers=d["workers"][-1]), ch))
        tag = f"{d['comp']} model={d['model']} n={d['n']} shape={tuple(d['shape'])} K={1 + len(d['rots'])}"
        # task execution order: the same molecules submitted in reverse order (synchronous scheduler: executed in reverse) must
        # get the same per-molecule results
        if d["comp"] != "average" and d["n"] >= 2:
            perm = list(range(d["n"]))[::-1]
            with dask.config.set(scheduler="synchronous"):
                rev = compute(d, build_loader(d, None, perm=perm))
            for k in ref:
                ax = 1 if k == "score" and d["comp"] == "score" else 0
                back = np.take(rev[k], np.argsort(perm), axis=ax) if k in rev and rev[k].shape == ref[k].shape else None
                if back is None or not np.array_equal(back, ref[k], equal_nan=True):
                    diff = float(np.abs(back.astype(np.float64) - ref[k].astype(np.float64)).max()) if back is not None else -1
                    out.append(viol(f"C10/result-depends-on-task-order:{d['comp']}", f"{tag}: '{k}' differs when the molecules are submitted in reverse order "
                                    f"(max diff {diff:.3g})"))
                    break
        for name, cfg, ch in variants:
            for rep in range(d["repeats"] if name.startswith("threads") else 1):
                try:
                    with dask.config.set(**cfg):
                        got = compute(d, build_loader(d, ch if ch is None else _extend(ch, d)))
                except HarnessError:
                    raise
                except Exception as e:  # noqa: BLE001
                    import traceback
                    if not any("/acryo/" in f.filename for f in traceback.extract_tb(e.__traceback__)):
                        raise
                    out.append(viol(f"C10/spurious-error:{type(e).__name__}", f"{tag} under {name}: {type(e).__name__}: {e}"))
                    break
                for k in ref:
                    tol_key = "avg" if (k in ("avg",) or ch is not None) else k
                    if k not in got or not same(ref[k], got[k], "avg" if ch is not None else tol_key, rng):
                        diff = float(np.abs(ref[k].astype(np.float64) - got[k].astype(np.float64)).max()) if k in got and got[k].shape == ref[k].shape else -1
                        out.append(viol(f"C10/result-depends-on-schedule:{d['comp']}", f"{tag}: '{k}' under {name} differs from the synchronous result (max diff {diff:.3g})"))
                        break
    return out


def _extend(ch, d):
    """chunk spec drawn for a cube of side S; repeat along x for the n cells"""
    S = max(d["shape"]) + 10
    cx = list(ch[2])
    full = []
    for _ in range(d["n"]):
        full.extend(cx)
    return (ch[0], ch[1], tuple(full))


def judge_interleave(d):
    out = []
    shape = tuple(d["shape"])
    Model = get_model(d["model"])
    tmpl = gen.smooth_noise(d["seed"], shape, sigma=0.9)
    imgs = [gen.smooth_noise(d["seed"] + 1 + i, shape, sigma=0.9) for i in range(d["nthreads"])]
    kw = {}
    if d["rots"]:
        kw["rotations"] = Rotation.from_rotvec(np.array([[0.0, 0.0, 0.0]] + d["rots"]))
    if d.get("tilt") is not None:
        kw["tilt"] = tuple(d["tilt"])
    qs = d.get("quats") or [[0.0, 0.0, 0.0]]
    quats = [Rotation.from_rotvec(qs[i % len(qs)]).as_quat().astype(np.float32) for i in range(d["nthreads"])]
    p = np.zeros(3, dtype=np.float32)
    ms = (d["lmax"],) * 3

    def task(model, op, im, q=None):
        if op == "score":
            return np.float64(model.score(im, q, p))
        if op == "align":
            r = model.align(im, ms, quaternion=q, pos=p)
            return np.concatenate([[r.label], r.shift, r.quat, [r.score]]).astype(np.float64)
        return np.asarray(model.landscape(im, ms, quaternion=q, pos=p), dtype=np.float64)

    ops = [d["ops"][i % len(d["ops"])] for i in range(d["nthreads"])]
    if d["rots"]:
        ops = [o if o != "score" else "align" for o in ops]
    with warnings.catch_warnings():
        warnings.simplefilter("ignore")
        seq_model = Model(tmpl, **kw)
        want = [task(seq_model, op, im, q) for op, im, q in zip(ops, imgs, quats)]
        coop = sched.Coop(d["schedule"])
        model = Model(tmpl, **kw)
        sched.instrument_model(model, coop)
        res = coop.run([(lambda op=op, im=im, q=q: task(model, op, im, q)) for op, im, q in zip(ops, imgs, quats)])
        # state left behind by the interleaved run must not poison later (sequential) calls on the same model
        after = [task(model, op, im, q) for op, im, q in zip(ops, imgs, quats)]
    tag = f"{d['model']} threads={d['nthreads']} ops={ops} K={1 + len(d['rots'])} schedule={d['schedule'][:12]}"
    for i, (status, val) in enumerate(res):
        if status == "err":
            import traceback
            tb = traceback.extract_tb(val.__traceback__)
            where = [f"{f.filename.split('/')[-1]}:{f.name}" for f in tb if "/acryo/" in f.filename]
            if not where:
                raise HarnessError("".join(traceback.format_exception(val)))
            out.append(viol(f"C10/error-under-interleaving:{type(val).__name__}", f"{tag}: thread {i} raised {type(val).__name__}: {val} at {where[-1]}; "
                            f"trace={coop.trace[:10]}"))
        elif not np.array_equal(np.asarray(val), np.asarray(want[i]), equal_nan=True):
            out.append(viol("C10/result-under-interleaving", f"{tag}: thread {i} result differs from the sequential one; trace={coop.trace[:12]}"))
    for i, val in enumerate(after):
        if not np.array_equal(np.asarray(val), np.asarray(want[i]), equal_nan=True):
            out.append(viol("C10/state-left-by-interleaving", f"{tag}: call {i} repeated after the interleaved run differs from the sequential result; trace={coop.trace[:12]}"))
            break
    return out


def _pkgdir():
    import os
    import acryo
    return os.path.dirname(os.path.abspath(acryo.__file__))


def _preempt_setup_model(d):
    """returns (make, want, ops): make() -> (fn_a, fn_b) on a fresh shared model; want = sequential results."""
    shape = tuple(d["shape"])
    Model = get_model(d["model"])
    tmpl = gen.smooth_noise(d["seed"], shape, sigma=0.9)
    imgs = [gen.smooth_noise(d["seed"] + 1 + i, shape, sigma=0.9) * (1.0 + 2.0 * i) + 0.5 * i for i in range(2)]
    kw = {}
    if d["rots"]:
        kw["rotations"] = Rotation.from_rotvec(np.array([[0.0, 0.0, 0.0]] + d["rots"]))
    if d.get("tilt") is not None:
        kw["tilt"] = tuple(d["tilt"])
    qs = d.get("quats") or [[0.0, 0.0, 0.0]]
    quats = [Rotation.from_rotvec(qs[i % len(qs)]).as_quat().astype(np.float32) for i in range(2)]
    p = np.zeros(3, dtype=np.float32)
    ms = (d["lmax"],) * 3

    def task(model, op, im, q=None):
        if op == "score":
            return np.float64(model.score(im, q, p))
        if op == "align":
            r = model.align(im, ms, quaternion=q, pos=p)
            return np.concatenate([[r.label], r.shift, r.quat, [r.score]]).astype(np.float64)
        return np.asarray(model.landscape(im, ms, quaternion=q, pos=p), dtype=np.float64)

    ops = [d["ops"][i % len(d["ops"])] for i in range(2)]
    if d["rots"]:
        ops = [o if o != "score" else "align" for o in ops]
    seq_model = Model(tmpl, **kw)
    want = [task(seq_model, op, im, q) for op, im, q in zip(ops, imgs, quats)]

    def make():
        model = Model(tmpl, **kw)
        return (lambda: task(model, ops[0], imgs[0], quats[0])), (lambda: task(model, ops[1], imgs[1], quats[1]))

    return make, want, ops


def _preempt_setup_loader(d):
    """The two tasks are the loader's own lazy per-molecule computations (rows 0 and 1 of construct_dask /
    construct_landscape / the align tasks of iter_mapping_tasks), each computed with the synchronous scheduler in its thread."""
    from acryo import SubtomogramLoader, Molecules
    import dask.array as da

    shape = tuple(d["shape"])
    S = max(shape) + 8
    tomo = gen.smooth_noise(d["seed"], (S, S, 2 * S), sigma=0.9)
    tomo[:, :, S:] = tomo[:, :, S:] * 3.0 + 1.0
    pos = np.array([[S / 2 + 0.3, S / 2 - 0.2, i * S + S / 2 + 0.4] for i in range(2)])
    qs = d.get("quats") or [[0.0, 0.0, 0.0]]
    R = Rotation.from_rotvec(np.array([qs[i % len(qs)] for i in range(2)]))
    Model = get_model(d["model"])
    tmpl = gen.smooth_noise(d["seed"] + 9, shape, sigma=0.9)
    kw = {}
    if d["rots"]:
        kw["rotations"] = Rotation.from_rotvec(np.array([[0.0, 0.0, 0.0]] + d["rots"]))
    if d.get("tilt") is not None:
        kw["tilt"] = tuple(d["tilt"])
    scale = d["scale"]
    op = d["ops"][0]

    def lazies():
        img = tomo if not d.get("chunked") else da.from_array(tomo, chunks=(S, S // 2 + 1, S // 2 + 3))
        loader = SubtomogramLoader(img, Molecules(pos * scale, R), order=d["order"], scale=scale, output_shape=shape)
        if op == "ld-load":
            arr = loader.construct_dask()
            return [arr[0], arr[1]]
        if op == "ld-landscape":
            arr = loader.construct_landscape(tmpl, max_shifts=d["lmax"] * scale, alignment_model=Model, **kw)
            return [arr[0], arr[1]]
        model = Model(tmpl, **kw)
        tasks = loader.construct_mapping_tasks(model.align, (d["lmax"],) * 3,
                                               var_kwarg=dict(quaternion=loader.molecules.quaternion(), pos=loader.molecules.pos / scale))
        tl = list(tasks)
        return [tl[0], tl[1]]

    def run(lz):
        r = lz.compute(scheduler="synchronous")
        if hasattr(r, "shift"):
            return np.concatenate([[r.label], r.shift, r.quat, [r.score]]).astype(np.float64)
        return np.asarray(r, dtype=np.float64)

    want = [run(lz) for lz in lazies()]

    def make():
        la, lb = lazies()
        return (lambda: run(la)), (lambda: run(lb))

    return make, want, [op, op]


def judge_preempt(d):
    """Two per-molecule tasks sharing one model; task A is preempted once, at an interpreter-level schedule point (call / return
    / line event of an acryo frame), task B runs to completion, A resumes. Enumerated over the preemption points
    d['offset'], d['offset'] + d['stride'], ... of A. Each thread's result must equal the sequential one."""
    out = []
    events = ("call", "return", "line") if d["gran"] == "line" else ("call", "return")
    pre = sched.PreemptOnce(_pkgdir(), events=events)
    loader_level = d["ops"][0].startswith("ld-")
    with warnings.catch_warnings():
        warnings.simplefilter("ignore")
        make, want, ops = (_preempt_setup_loader if loader_level else _preempt_setup_model)(d)
        tag = f"{d['model']} ops={ops} K={1 + len(d['rots'])} shape={tuple(d['shape'])} gran={d['gran']} cold={d['cold']}"
        # number of schedule points of task A (cold caches: the longest path)
        sched.clear_lru_caches()
        fa, _ = make()
        _, _, st0 = pre.run(fa, lambda: None, None)
        npoints = st0["count"]
        targets = list(range(1 + d["offset"] % max(1, d["stride"]), npoints + 1, max(1, d["stride"])))
        d["_npoints"], d["_nrun"] = npoints, len(targets)
        seen = set()
        for t in targets:
            if d["cold"]:
                sched.clear_lru_caches()
            fa, fb = make()
            ra, rb, stt = pre.run(fa, fb, t)
            for i, (status, val) in enumerate((ra, rb)):
                if status == "err":
                    import traceback
                    tb = traceback.extract_tb(val.__traceback__)
                    where = [f"{f.filename.split('/')[-1]}:{f.name}" for f in tb if "/acryo/" in f.filename]
                    if not where:
                        raise HarnessError("".join(traceback.format_exception(val)))
                    sig = f"C10/error-under-preemption:{type(val).__name__}"
                    if sig not in seen:
                        seen.add(sig)
                        out.append(viol(sig, f"{tag}: task {'AB'[i]} raised {type(val).__name__}: {val} at {where[-1]} when A is preempted at "
                                        f"point {t}/{npoints} ({stt['where']}) and B runs in between"))
                elif not np.array_equal(np.asarray(val), np.asarray(want[i]), equal_nan=True):
                    fn = (stt["where"] or "?").split(":")
                    sig = f"C10/result-under-preemption:{fn[0]}:{fn[1] if len(fn) > 1 else ''}"
                    if sig not in seen:
                        seen.add(sig)
                        out.append(viol(sig, f"{tag}: task {'AB'[i]} differs from its sequential result when A is preempted at point {t}/{npoints} "
                                        f"({stt['where']}) and B runs in between"))
            if len(out) >= 3:
                break
    return out


def judge_alternate(d):
    """Several hand-overs: the two tasks alternate according to drawn point budgets (A runs s0 points, B s1, A s2, ...)."""
    out = []
    events = ("call", "return", "line") if d["gran"] == "line" else ("call", "return")
    alt = sched.Alternating(_pkgdir(), events=events)
    loader_level = d["ops"][0].startswith("ld-")
    with warnings.catch_warnings():
        warnings.simplefilter("ignore")
        make, want, ops = (_preempt_setup_loader if loader_level else _preempt_setup_model)(d)
        tag = f"{d['model']} ops={ops} K={1 + len(d['rots'])} shape={tuple(d['shape'])} gran={d['gran']} cold={d['cold']}"
        handovers = 0
        for segs in d["seglists"]:
            if d["cold"]:
                sched.clear_lru_caches()
            fa, fb = make()
            ra, rb, stt = alt.run(fa, fb, segs)
            handovers = max(handovers, sum(1 for t in stt["trace"] if t[2] == "parked"))
            where = [t[3] for t in stt["trace"] if t[2] == "parked"][:6]
            for i, (status, val) in enumerate((ra, rb)):
                if status == "err":
                    import traceback
                    tb = traceback.extract_tb(val.__traceback__)
                    w = [f"{f.filename.split('/')[-1]}:{f.name}" for f in tb if "/acryo/" in f.filename]
                    if not w:
                        raise HarnessError("".join(traceback.format_exception(val)))
                    out.append(viol(f"C10/error-under-alternation:{type(val).__name__}", f"{tag}: task {'AB'[i]} raised {type(val).__name__}: {val} at {w[-1]} "
                                    f"under budgets {segs} (parked at {where})"))
                elif not np.array_equal(np.asarray(val), np.asarray(want[i]), equal_nan=True):
                    out.append(viol("C10/result-under-alternation", f"{tag}: task {'AB'[i]} differs from its sequential result under budgets {segs} (parked at {where})"))
            if out:
                break
        d["_handovers"] = handovers
    return out


def judge_shape(d):
    from acryo import SubtomogramLoader, Molecules

    out = []
    shape = tuple(d["shape"])
    n = 2
    S = max(shape) + 10
    tomo = gen.smooth_noise(d["seed"], (S, S, S * n), sigma=0.9)
    pos = np.array([[S / 2, S / 2, i * S + S / 2 + 0.3] for i in range(n)])
    scale = d["scale"]
    loader = SubtomogramLoader(tomo, Molecules(pos * scale), order=1, scale=scale, output_shape=shape)
    Model = get_model(d["model"])
    tmpls = [gen.smooth_noise(d["seed"] + 5 + i, shape, sigma=0.9) for i in range(2)]
    kw = {}
    if d["rots"]:
        kw["rotations"] = Rotation.from_rotvec(np.array([[0.0, 0.0, 0.0]] + d["rots"]))
    ms_px = d["max_shifts"]
    ms = tuple(m * scale for m in ms_px) if d["ms_form"] == "tuple" else ms_px[0] * scale
    tmpl = np.stack(tmpls) if d["multi"] else tmpls[0]
    tag = f"{d['model']} shape={shape} max_shifts_px={ms_px}({d['ms_form']}) upsample={d['upsample']} multi={d['multi']} K={1 + len(d['rots'])} scale={scale}"
    with warnings.catch_warnings():
        warnings.simplefilter("ignore")
        lazy = loader.construct_landscape(tmpl, max_shifts=ms, alignment_model=Model, upsample=d["upsample"], **kw)
        try:
            real = lazy.compute()
        except Exception as e:  # noqa: BLE001
            import traceback
            if not any("/acryo/" in f.filename for f in traceback.extract_tb(e.__traceback__)) and "shape" not in str(e).lower():
                raise
            out.append(viol("C10/lazy-landscape-compute-fails", f"{tag}: declared shape {lazy.shape}, compute raised {type(e).__name__}: {str(e)[:120]}"))
            return out
        if tuple(lazy.shape) != tuple(real.shape):
            out.append(viol("C10/lazy-landscape-shape", f"{tag}: construct_landscape declares {tuple(lazy.shape)} but computing it yields {tuple(real.shape)}"))
        # the same request with other model classes in the same process (the models differ in how wide a landscape they return)
        for other in d.get("models_after", []):
            if other == "FSC" and max(ms_px) > 2.0:
                continue
            lz = loader.construct_landscape(tmpl, max_shifts=ms, alignment_model=get_model(other), upsample=d["upsample"], **kw)
            rl = lz.compute()
            if tuple(lz.shape) != tuple(rl.shape):
                out.append(viol("C10/lazy-landscape-shape:second-model", f"{tag}: after that, {other} declares {tuple(lz.shape)} for the same request but "
                                f"computing it yields {tuple(rl.shape)}"))
                break
        dk = loader.construct_dask(output_shape=shape)
        rr = dk.compute()
        if tuple(dk.shape) != tuple(rr.shape):
            out.append(viol("C10/lazy-subtomogram-shape", f"{tag}: construct_dask declares {tuple(dk.shape)}, computed {tuple(rr.shape)}"))
    return out


def judge_stress(d):
    """real preemption: many repetitions with a minimal switch interval (probabilistic, thorough only)."""
    import dask

    out = []
    old = sys.getswitchinterval()
    sys.setswitchinterval(1e-6)
    try:
        with warnings.catch_warnings():
            warnings.simplefilter("ignore")
            with dask.config.set(scheduler="synchronous"):
                ref = compute(d, build_loader(d, None))
            for rep in range(d["reps"]):
                try:
                    with dask.config.set(scheduler="threads", num_workers=16):
                        got = compute(d, build_loader(d, None))
                except Exception as e:  # noqa: BLE001
                    import traceback
                    if not any("/acryo/" in f.filename for f in traceback.extract_tb(e.__traceback__)):
                        raise
                    out.append(viol(f"C10/stress-error:{type(e).__name__}", f"{d['comp']} {d['model']} repetition {rep}: {type(e).__name__}: {e}"))
                    break
                for k in ref:
                    if k != "avg" and not np.array_equal(ref[k], got[k], equal_nan=True):
                        out.append(viol("C10/stress-result", f"{d['comp']} {d['model']} repetition {rep}: '{k}' differs under 16 preempted workers"))
                        return out
    finally:
        sys.setswitchinterval(old)
    return out


@st.composite
def base_case(draw, fsc_ok=True):
    model = draw(st.sampled_from(["ZNCC", "NCC", "PCC", "FSC"] if fsc_ok else ["ZNCC", "NCC", "PCC"]))
    shape = draw(gen.box_shapes(5, 8 if model == "FSC" else 10))
    nrot = draw(st.sampled_from([0, 0, 1, 2]))
    from vlib import planted
    rots = planted.rotation_set(draw, kmax=nrot + 1)[1:] if nrot else []
    return {"model": model, "shape": shape, "seed": draw(gen.seeds), "scale": draw(st.sampled_from([1.0, 0.5, 1.37])),
            "order": draw(st.sampled_from([1, 3])), "rots": rots, "tilt": draw(st.sampled_from([None, None, [-60.0, 60.0]])),
            "lmax": draw(st.sampled_from([1.0, 1.5, 2.0])), "upsample": draw(st.sampled_from([1, 1, 2]))}


@st.composite
def differential_cases(draw):
    d = draw(base_case())
    n = draw(st.integers(2, 6))
    S = max(d["shape"]) + 10
    if draw(st.booleans()):
        d["tilt"] = [-60.0, 60.0]
    d.update({"n": n, "comp": draw(st.sampled_from(["asnumpy", "average", "align", "align", "multi", "score", "score", "landscape", "apply"])),
              "offs": [[round(draw(st.floats(-1, 1)), 2) for _ in range(3)] for _ in range(n)],
              "rots_m": [draw(gen.rotvecs()) for _ in range(n)],
              "workers": sorted(set(draw(st.lists(st.sampled_from([1, 2, 4, 16]), min_size=1, max_size=2)))),
              "width": draw(st.sampled_from([1, 2, 4, 8])),
              "order_choices": draw(st.lists(st.integers(0, 7), min_size=0, max_size=24)),
              "chunks": draw(gen.chunkings([S, S, S], min_chunk=3)) if draw(st.booleans()) else None,
              "repeats": draw(st.sampled_from([1, 2]))})
    return d


@st.composite
def interleave_cases(draw):
    d = draw(base_case())
    d.update({"nthreads": draw(st.integers(2, 4)), "ops": draw(st.lists(st.sampled_from(["score", "align", "landscape"]), min_size=1, max_size=4)),
              "schedule": draw(st.lists(st.integers(0, 3), min_size=0, max_size=40)),
              "quats": [draw(gen.rotvecs())["rv"] for _ in range(draw(st.integers(1, 3)))]})
    return d


def all_two_thread_schedules(tier):
    for model in (["ZNCC", "PCC"] if tier == "quick" else ["ZNCC", "NCC", "PCC", "FSC"]):
        for schedule in itertools.product(range(2), repeat=8):
            yield {"model": model, "shape": [5, 5, 5], "seed": 3, "scale": 1.0, "order": 1, "rots": [], "tilt": None, "lmax": 1.0,
                   "upsample": 1, "nthreads": 2, "ops": ["score"], "schedule": list(schedule)}


@st.composite
def preempt_cases(draw, stride_max=40):
    d = draw(base_case())
    d["shape"] = draw(gen.box_shapes(5, 8))
    ops = draw(st.lists(st.sampled_from(["score", "align", "align", "landscape"]), min_size=1, max_size=2))
    if draw(st.integers(0, 3)) == 0:
        ops = [draw(st.sampled_from(["ld-load", "ld-landscape", "ld-align"]))]
        d["chunked"] = draw(st.booleans())
    d.update({"ops": ops,
              "quats": [draw(gen.rotvecs())["rv"] for _ in range(draw(st.integers(1, 2)))],
              "gran": draw(st.sampled_from(["call", "call", "line"])), "cold": draw(st.booleans()),
              "stride": draw(st.integers(1, stride_max)), "offset": draw(st.integers(0, 1000))})
    if len(d["rots"]) > 1:
        d["rots"] = d["rots"][:1]
    if ops[0].startswith("ld-"):
        d["stride"] = max(d["stride"], 8)  # a loader-level run costs ~75 ms (graph construction + dask overhead)
    return d


@st.composite
def alternate_cases(draw):
    d = draw(preempt_cases())
    d.pop("stride"), d.pop("offset")
    budget = st.integers(1, 120 if d["gran"] == "line" else 50)
    d["seglists"] = [draw(st.lists(budget, min_size=2, max_size=8)) for _ in range(draw(st.integers(4, 10)))]
    return d


def all_preemption_points(tier):
    """every line-level preemption point of task A, for each model and each pair of equal operations (4 residue classes each)."""
    shapes = [[6, 6, 6]] if tier == "quick" else [[6, 6, 6], [5, 6, 7]]
    for shape in shapes:
        for model in ["ZNCC", "NCC", "PCC", "FSC"]:
            for ops in (["score"], ["align"], ["landscape"]) + (() if tier == "quick" else (["align", "landscape"], ["landscape", "score"])):
                for off in range(4):
                    yield {"model": model, "shape": shape, "seed": 3, "scale": 1.0, "order": 1, "rots": [], "tilt": None, "lmax": 1.0, "upsample": 1,
                           "ops": ops, "quats": [[0.0, 0.0, 0.3]], "gran": "line", "cold": True, "stride": 4, "offset": off}
    # loader level: the loader's own lazy per-molecule tasks (loading + model call), numpy and chunked dask tomograms
    # (a loader-level run costs ~75 ms: call-level points for every model, line-level points for ZNCC and PCC in the thorough tier;
    #  8 residue classes keep the work units small enough to balance over the worker processes)
    combos = [(m, "call") for m in (["ZNCC"] if tier == "quick" else ["ZNCC", "NCC", "PCC", "FSC"])]
    if tier != "quick":
        combos += [("ZNCC", "line"), ("PCC", "line")]
    for model, gran in combos:
        for op in ("ld-load", "ld-align") + (() if tier == "quick" else ("ld-landscape",)):
            for chunked in (False, True):
                nres = 4 if gran == "call" else 8
                for off in range(nres):
                    yield {"model": model, "shape": [6, 6, 6], "seed": 3, "scale": 1.37, "order": 1, "rots": [], "tilt": [-60.0, 60.0], "lmax": 1.0,
                           "upsample": 1, "ops": [op], "quats": [[0.0, 0.0, 0.3], [0.2, 0.0, 0.0]], "gran": gran,
                           "cold": True, "stride": nres, "offset": off, "chunked": chunked}


@st.composite
def shape_cases(draw):
    d = draw(base_case())
    form = draw(st.sampled_from(["scalar", "tuple"]))
    vals = st.sampled_from([0.0, 0.5, 1.0, 1.5, 2.0, 2.49, 1.27, 3.0])
    v0 = draw(vals)
    if d["model"] == "FSC":
        v0 = min(v0, 2.0)
    ms = [v0] * 3 if form == "scalar" else [min(draw(vals), 2.0 if d["model"] == "FSC" else 3.0) for _ in range(3)]
    d.update({"max_shifts": ms, "ms_form": form, "upsample": draw(st.sampled_from([1, 1, 2, 3])), "multi": draw(st.booleans()),
              "models_after": draw(st.lists(st.sampled_from(["ZNCC", "NCC", "PCC", "FSC"]), min_size=0, max_size=2))})
    return d


@st.composite
def stress_cases(draw):
    d = draw(differential_cases())
    d["comp"] = draw(st.sampled_from(["score", "align", "landscape", "multi"]))
    d["n"] = 6
    d["offs"] = [[0.1 * i, 0.2, -0.1 * i] for i in range(6)]
    d["rots_m"] = [{"cls": "identity", "rv": [0.0, 0.0, 0.0]}] * 6
    d["reps"] = 10
    return d


def nontrivial_diff(d):
    return (max(d["workers"]) >= 2 and d["n"] >= 2) or len(d["order_choices"]) > 0


def engines():
    e = [
        Engine("differential", judge_differential, strategy=differential_cases(), nontrivial=nontrivial_diff,
               labels=lambda d: [f"comp:{d['comp']}", f"model:{d['model']}", "chunked" if d["chunks"] else "numpy"] + [f"workers:{w}" for w in d["workers"]],
               cases={"quick": 80, "thorough": 1200}, shards={"quick": 16, "thorough": 16}, shrink={"quick": False, "thorough": True}),
        Engine("interleave", judge_interleave, strategy=interleave_cases(), enumerate=all_two_thread_schedules,
               nontrivial=lambda d: d["nthreads"] >= 2,
               labels=lambda d: [f"model:{d['model']}", f"threads:{d['nthreads']}"] + [f"op:{o}" for o in d["ops"]],
               cases={"quick": 150, "thorough": 6000}, shards={"quick": 8, "thorough": 16}, shrink={"quick": False, "thorough": True}),
        Engine("preempt", judge_preempt, strategy=preempt_cases(), enumerate=all_preemption_points,
               nontrivial=lambda d: d.get("_nrun", 1) >= 1,
               labels=lambda d: [f"model:{d['model']}", f"gran:{d['gran']}", "cold" if d["cold"] else "warm", f"K:{1 + len(d['rots'])}"] + [f"op:{o}" for o in d["ops"]],
               cases={"quick": 24, "thorough": 800}, shards={"quick": 12, "thorough": 16}, shrink={"quick": False, "thorough": False}),
        Engine("alternate", judge_alternate, strategy=alternate_cases(),
               nontrivial=lambda d: d.get("_handovers", 2) >= 2,
               labels=lambda d: [f"model:{d['model']}", f"gran:{d['gran']}", "cold" if d["cold"] else "warm"] + [f"op:{o}" for o in d["ops"]],
               cases={"quick": 48, "thorough": 2400}, shards={"quick": 12, "thorough": 16}, shrink={"quick": False, "thorough": False}),
        Engine("lazy-shape", judge_shape, strategy=shape_cases(),
               nontrivial=lambda d: d["upsample"] > 1 or any(abs(m - round(m)) > 1e-9 for m in d["max_shifts"]),
               labels=lambda d: [f"model:{d['model']}", f"upsample:{d['upsample']}", f"form:{d['ms_form']}", "multi" if d["multi"] else "single", f"K:{1 + len(d['rots'])}"],
               cases={"quick": 80, "thorough": 2500}, shards={"quick": 8, "thorough": 16}),
        Engine("stress", judge_stress, strategy=stress_cases(), nontrivial=lambda d: True,
               labels=lambda d: [f"comp:{d['comp']}", f"model:{d['model']}"],
               cases={"quick": 0, "thorough": 48}, shards={"quick": 1, "thorough": 12}, shrink={"quick": False, "thorough": False}),
    ]
    return e
