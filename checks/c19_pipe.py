"""C19 - Image pipelines compose like functions and are parameterised in physical units."""
from __future__ import annotations

import math
import warnings

import numpy as np
from hypothesis import strategies as st
from scipy import ndimage as ndi

from vlib import gen
from vlib.runner import Engine, viol, HarnessError

PROPERTY = "C19"
RULE = ("Engine 'expr': a recursive Hypothesis strategy generates pipeline expression trees (depth <= 4) from provider "
        "leaves (from_array, custom provider_functions with 0/1/2 parameters), converter leaves (gaussian_filter, "
        "lowpass_filter, shift, custom converter_functions with 0/1/2 parameters), + - * / and the six comparisons "
        "with scalars on either side and with other pipelines, unary minus and @; the expression is built with the "
        "acryo operators and evaluated, and a small interpreter evaluates the same tree by nested function application "
        "and numpy operators; associativity of @ is checked on every composition chain. Engine 'units': scale "
        "covariance of converters and of from_gaussian, from_gaussian against the analytic Gaussian, rescaling "
        "providers (identity within tol, resampled shape and physical centre of mass otherwise), mask-converter laws "
        "(extensive / anti-extensive, [0,1], identity below one pixel), currying, and loader.normalize_*. "
        "Non-trivial = depth >= 2 with a reflected operator or an @, or a covariance case with lambda != 1.")
RULE += (" " + "Also: engine 'ties' (comparisons of every offered operand-kind pair on small-integer images), scalar - mask expressions, every pipeline object evaluated three times with the input image unchanged, shift against scipy for orders 1 / 3 / default and whole-pixel vectors, masks that touch the box faces, binary masks as uint8 / float32, Gaussian boxes that are not whole numbers of pixels.")
TOLERANCES = {"expression value": "1e-5 relative (booleans / 0-1 masks as truth values)", "covariance": "1e-5 relative",
              "from_gaussian": "1e-5", "rescaled centre of mass": "0.5 px"}
ASSUMPTIONS = ["parameters that pass through ceil/round/int (kernel radii, structuring-element radii, resampled shapes) are generated in the pixel domain with a margin from the discontinuity",
               "mask-converter laws are checked on masks that stay r+1 voxels away from the box faces"]

SHAPE = (8, 9, 10)


def base_image(seed, kind="noise"):
    a = gen.smooth_noise(seed, SHAPE, sigma=0.7)
    if kind == "positive":
        return (np.abs(a) + 1.0).astype(np.float32)
    if kind == "quant":  # small integers: comparisons between such images are full of ties
        return np.round(a * 1.5).astype(np.float32)
    return a


# ------------------------------------------------------------------ expression trees

def custom_providers():
    from acryo.pipe import provider_function

    @provider_function
    def p0():
        return np.full(SHAPE, 2.5, dtype=np.float32)

    @provider_function
    def p1(scale):
        return np.full(SHAPE, float(scale), dtype=np.float32)

    @provider_function
    def p3(scale, a, b=1.0):
        return (base_image(11) * a + b * scale).astype(np.float32)

    return {"p0": p0, "p1": p1, "p3": p3}


def custom_converters():
    from acryo.pipe import converter_function

    @converter_function
    def c0():
        return np.full(SHAPE, -1.5, dtype=np.float32)

    @converter_function
    def c1(img):
        return img * 2.0

    @converter_function
    def c2(img, scale):
        return img + scale

    @converter_function
    def c4(img, scale, a, b=0.0):
        return img * a + b / scale

    @converter_function
    def cpos(img, scale, k=1.0):
        return np.abs(img) + k

    return {"c0": c0, "c1": c1, "c2": c2, "c4": c4, "cpos": cpos}


RAW = {
    "p0": lambda scale: np.full(SHAPE, 2.5, dtype=np.float32),
    "p1": lambda scale: np.full(SHAPE, float(scale), dtype=np.float32),
    "p3": lambda scale, a, b=1.0: (base_image(11) * a + b * scale).astype(np.float32),
    "c0": lambda img, scale: np.full(SHAPE, -1.5, dtype=np.float32),
    "c1": lambda img, scale: img * 2.0,
    "c2": lambda img, scale: img + scale,
    "c4": lambda img, scale, a, b=0.0: img * a + b / scale,
    "cpos": lambda img, scale, k=1.0: np.abs(img) + k,
}
OPS = {"+": np.add, "-": np.subtract, "*": np.multiply, "/": np.divide,
       "<": np.less, "<=": np.less_equal, ">": np.greater, ">=": np.greater_equal, "==": np.equal, "!=": np.not_equal}


def pyop(op, l, r):
    import operator
    f = {"+": operator.add, "-": operator.sub, "*": operator.mul, "/": operator.truediv, "<": operator.lt, "<=": operator.le,
         ">": operator.gt, ">=": operator.ge, "==": operator.eq, "!=": operator.ne}[op]
    return f(l, r)


def build(e, PF, CF):
    """expression tree -> acryo pipeline object (or python scalar)"""
    from acryo import pipe
    t = e["t"]
    if t == "scalar":
        return e["v"]
    if t == "from_array":
        return pipe.from_array(base_image(e["seed"], e["kind"]), original_scale=e["oscale"])
    if t == "prov":
        return PF[e["name"]](*e["args"])
    if t == "conv":
        n = e["name"]
        if n == "gaussian_filter":
            return pipe.gaussian_filter(sigma=e["args"][0])
        if n == "lowpass_filter":
            return pipe.lowpass_filter(e["args"][0])
        if n == "shift":
            return pipe.shift(tuple(e["args"]))
        return CF[n](*e["args"])
    if t == "neg":
        return -build(e["x"], PF, CF)
    if t in ("binop", "cmp"):
        return pyop(e["op"], build(e["l"], PF, CF), build(e["r"], PF, CF))
    if t == "compose":
        return build(e["f"], PF, CF) @ build(e["g"], PF, CF)
    raise HarnessError(t)


def interp(e, scale):
    """expression tree -> value (scalar / array for providers / function img -> array for converters)"""
    t = e["t"]
    if t == "scalar":
        return "s", e["v"]
    if t == "from_array":
        if abs(e["oscale"] / scale - 1) >= 0.01:
            raise HarnessError("from_array leaves are generated at the evaluation scale")
        return "p", base_image(e["seed"], e["kind"])
    if t == "prov":
        return "p", RAW[e["name"]](scale, *e["args"])
    if t == "conv":
        n, a = e["name"], e["args"]
        if n == "gaussian_filter":
            return "c", lambda img: ndi.gaussian_filter(img, a[0] / scale, mode="reflect", cval=0.0)
        if n == "lowpass_filter":
            from checks.c16_lowpass import ref_lowpass
            return "c", lambda img: ref_lowpass(img, a[0], 2)
        if n == "shift":
            # documented signature: shift(shift, *, order=3, mode="nearest", cval=0.0)
            return "c", lambda img: ndi.shift(img, np.asarray(a) / scale, order=3, prefilter=True, mode="nearest", cval=0.0)
        return "c", lambda img: RAW[n](img, scale, *a)
    if t == "neg":
        k, v = interp(e["x"], scale)
        return (k, -v) if k != "c" else ("c", lambda img: -v(img))
    if t in ("binop", "cmp"):
        kl, vl = interp(e["l"], scale)
        kr, vr = interp(e["r"], scale)
        f = OPS[e["op"]]
        if "c" in (kl, kr):
            gl = vl if kl == "c" else (lambda img: vl)
            gr = vr if kr == "c" else (lambda img: vr)
            return "c", lambda img: f(gl(img), gr(img))
        return ("p" if "p" in (kl, kr) else "s"), f(vl, vr)
    if t == "compose":
        kf, vf = interp(e["f"], scale)
        kg, vg = interp(e["g"], scale)
        if kg == "p":
            return "p", vf(vg)
        return "c", lambda img: vf(vg(img))
    raise HarnessError(t)


def kind_of(e):
    t = e["t"]
    if t == "scalar":
        return "s"
    if t in ("from_array", "prov"):
        return "p"
    if t == "conv":
        return "c"
    if t == "neg":
        return kind_of(e["x"])
    if t in ("binop", "cmp"):
        ks = (kind_of(e["l"]), kind_of(e["r"]))
        return "c" if "c" in ks else "p"
    if t == "compose":
        return "p" if kind_of(e["g"]) == "p" else "c"


def depth(e):
    return 1 + max([depth(e[k]) for k in ("x", "l", "r", "f", "g") if k in e and isinstance(e[k], dict)] or [0])


def has(e, pred):
    if pred(e):
        return True
    return any(has(e[k], pred) for k in ("x", "l", "r", "f", "g") if k in e and isinstance(e[k], dict))


def close(a, b):
    a = np.asarray(a)
    b = np.asarray(b)
    if a.shape != b.shape:
        return False
    if a.dtype == bool or b.dtype == bool:
        return bool(np.array_equal(a.astype(bool), b.astype(bool)))
    a = a.astype(np.float64)
    b = b.astype(np.float64)
    fin = np.isfinite(a) & np.isfinite(b)
    if not np.array_equal(np.isfinite(a), np.isfinite(b)):
        return False
    sc = max(1.0, float(np.abs(b[fin]).max()) if fin.any() else 1.0)
    return bool(np.all(np.abs(a[fin] - b[fin]) <= 1e-5 * sc + 1e-6))


def describe(e):
    t = e["t"]
    if t == "scalar":
        return repr(e["v"])
    if t == "from_array":
        return f"from_array#{e['seed'] % 100}"
    if t in ("prov", "conv"):
        return f"{e['name']}({', '.join(map(str, e['args']))})"
    if t == "neg":
        return f"-({describe(e['x'])})"
    if t in ("binop", "cmp"):
        return f"({describe(e['l'])} {e['op']} {describe(e['r'])})"
    return f"({describe(e['f'])} @ {describe(e['g'])})"


def judge_expr(d):
    out = []
    e = d["expr"]
    scale = d["scale"]
    PF, CF = custom_providers(), custom_converters()
    img = base_image(d["img_seed"], d.get("img_kind", "noise"))
    if e["t"] == "cmp":
        with np.errstate(all="ignore"):
            sides = []
            for side in (e["l"], e["r"]):
                ks, vs = interp(side, scale)
                sides.append(np.broadcast_to(np.asarray(vs(img) if ks == "c" else vs, dtype=np.float64), SHAPE))
            d["_ties"] = int((sides[0] == sides[1]).sum())
    with warnings.catch_warnings():
        warnings.simplefilter("ignore")
        with np.errstate(all="ignore"):
            k, want = interp(e, scale)
            try:
                obj = build(e, PF, CF)
                got = obj(scale) if k == "p" else obj(img, scale)
            except HarnessError:
                raise
            except Exception as ex:  # noqa: BLE001
                import traceback
                if not any("/acryo/" in f.filename for f in traceback.extract_tb(ex.__traceback__)):
                    raise
                out.append(viol(f"C19/expression-raises:{type(ex).__name__}", f"{describe(e)} at scale {scale}: {type(ex).__name__}: {ex}"))
                return out
            wantv = want if k == "p" else want(img)
    if not close(got, wantv):
        out.append(viol("C19/expression-value", f"{describe(e)} at scale {scale}: pipeline result differs from nested function application "
                        f"(e.g. {np.asarray(got).ravel()[:3].tolist()} vs {np.asarray(wantv).ravel()[:3].tolist()})"))
        return out
    # a pipeline is a function: evaluating the same object again gives the same image, and the input image is not modified
    with warnings.catch_warnings():
        warnings.simplefilter("ignore")
        with np.errstate(all="ignore"):
            img_before = img.copy()
            got2 = obj(scale) if k == "p" else obj(img, scale)
            got3 = obj(scale) if k == "p" else obj(img, scale)
    if not close(got2, got) or not close(got3, got):
        out.append(viol("C19/second-evaluation-differs", f"{describe(e)} at scale {scale}: evaluating the same pipeline object again gives another image"))
        return out
    if not np.array_equal(img, img_before):
        out.append(viol("C19/input-image-modified", f"{describe(e)} at scale {scale}: the input image was modified in place"))
        return out
    # associativity of every (a @ b) @ c chain
    def chains(x):
        if x["t"] == "compose" and x["f"]["t"] == "compose":
            yield x
        for kk in ("x", "l", "r", "f", "g"):
            if kk in x and isinstance(x[kk], dict):
                yield from chains(x[kk])
    for ch in chains(e):
        a, b, c = ch["f"]["f"], ch["f"]["g"], ch["g"]
        with warnings.catch_warnings():
            warnings.simplefilter("ignore")
            with np.errstate(all="ignore"):
                A, B, C = build(a, PF, CF), build(b, PF, CF), build(c, PF, CF)
                left, right = (A @ B) @ C, A @ (B @ C)
                if kind_of(c) == "p":
                    l, r = left(scale), right(scale)
                else:
                    l, r = left(img, scale), right(img, scale)
        if not close(l, r):
            out.append(viol("C19/compose-not-associative", f"({describe(a)} @ {describe(b)}) @ {describe(c)} != a @ (b @ c)"))
            break
    return out


# ------------------------------------------------------------------ units engine

def judge_units(d):
    from acryo import pipe, SubtomogramLoader, Molecules

    out = []
    kind = d["kind"]
    scale, lam = d["scale"], d["lam"]
    img = base_image(d["seed"])
    with warnings.catch_warnings():
        warnings.simplefilter("ignore")
        if kind == "cov-gaussian_filter":
            s_px = d["px"]  # sigma in pixels, chosen away from kernel-radius discontinuities
            a = pipe.gaussian_filter(sigma=s_px * scale)(img, scale)
            b = pipe.gaussian_filter(sigma=s_px * scale * lam)(img, scale * lam)
            if not close(a, b):
                out.append(viol("C19/scale-covariance:gaussian_filter", f"sigma={s_px}px scale={scale} lambda={lam}: results differ by {np.abs(a - b).max():.3g}"))
            if not close(a, ndi.gaussian_filter(img, s_px)):
                out.append(viol("C19/physical-units:gaussian_filter", f"gaussian_filter(sigma={s_px * scale} nm) at scale {scale} != {s_px} px filter"))
        elif kind == "cov-shift":
            sh = np.array(d["vec"])
            a = pipe.shift(tuple(sh * scale))(img, scale)
            b = pipe.shift(tuple(sh * scale * lam))(img, scale * lam)
            if not close(a, b):
                out.append(viol("C19/scale-covariance:shift", f"shift={sh.tolist()}px scale={scale} lambda={lam}: results differ"))
            # physical units and the interpolation order: the curried converter behaves like scipy's shift by shift/scale pixels
            for o in (None, 1, 3):
                conv = pipe.shift(tuple(sh * scale)) if o is None else pipe.shift(tuple(sh * scale), order=o)
                got = np.asarray(conv(img, scale))
                want = ndi.shift(img, sh, order=3 if o is None else o, prefilter=(3 if o is None else o) > 1, mode="nearest", cval=0.0)
                if not close(got, want):
                    out.append(viol("C19/physical-units:shift", f"shift={sh.tolist()}px order={'default(3)' if o is None else o}: differs from scipy.ndimage.shift by "
                                    f"{np.abs(got - want).max():.3g}"))
                    break
        elif kind in ("cov-dilation", "cov-closing"):
            f = pipe.dilation if kind == "cov-dilation" else pipe.closing
            r_px = d["px"] * d["sign"]
            # d["touch"]: the mask may reach the faces of the box (a mask cut by the box is still a mask)
            mask = make_mask(d["seed"], margin=0 if d.get("touch") else int(math.ceil(abs(d["px"]))) + 2)
            a = f(r_px * scale)(mask, scale)
            b = f(r_px * scale * lam)(mask, scale * lam)
            if not np.array_equal(np.asarray(a, bool), np.asarray(b, bool)):
                out.append(viol(f"C19/scale-covariance:{kind[4:]}", f"radius={r_px}px scale={scale} lambda={lam}: results differ"))
            A = np.asarray(a, bool)
            if abs(d["px"]) < 1:
                if not np.array_equal(A, mask):
                    out.append(viol(f"C19/sub-pixel-radius-not-identity:{kind[4:]}", f"radius {r_px} px changed the mask"))
            elif d["sign"] > 0 and not np.all(A >= mask):
                out.append(viol(f"C19/not-extensive:{kind[4:]}", f"radius={r_px}px: result does not contain the input mask"))
            elif d["sign"] < 0 and not np.all(A <= mask):
                out.append(viol(f"C19/not-anti-extensive:{kind[4:]}", f"radius={r_px}px: result is not contained in the input mask"))
            if kind == "cov-dilation" and abs(d["px"]) >= 1:
                r = int(math.ceil(abs(d["px"])))
                zz, yy, xx = np.indices((2 * r + 1,) * 3)
                st_ = (zz - r) ** 2 + (yy - r) ** 2 + (xx - r) ** 2 <= r * r
                want = ndi.binary_dilation(mask, st_) if d["sign"] > 0 else ndi.binary_erosion(mask, st_)
                if not np.array_equal(A, want):
                    out.append(viol("C19/dilation-radius", f"radius={r_px}px: not a dilation/erosion by a ball of radius ceil(|r|)={r} px"))
        elif kind == "smooth":
            mask = make_mask(d["seed"], margin=4)
            s_px = d["px"]
            a = np.asarray(pipe.gaussian_smooth(s_px * scale)(mask, scale), dtype=np.float64)
            b = np.asarray(pipe.gaussian_smooth(s_px * scale * lam)(mask, scale * lam), dtype=np.float64)
            if not close(a, b):
                out.append(viol("C19/scale-covariance:gaussian_smooth", f"sigma={s_px}px lambda={lam}: results differ"))
            if a.min() < -1e-6 or a.max() > 1 + 1e-6 or not np.all(a >= mask - 1e-6) or not np.allclose(a[mask], 1.0, atol=1e-6):
                out.append(viol("C19/gaussian_smooth-law", f"sigma={s_px}px: values in [{a.min():.3g},{a.max():.3g}], >= mask: {bool(np.all(a >= mask - 1e-6))}, =1 on mask: {bool(np.allclose(a[mask], 1.0))}"))
            # the same binary mask handed over as a 0/1 array of another dtype (e.g. read from a file) is the same mask
            mdt = d.get("mask_dtype", "bool")
            if mdt != "bool":
                for cname, conv in (("gaussian_smooth", pipe.gaussian_smooth(s_px * scale)), ("dilation", pipe.dilation(1.5 * scale)), ("closing", pipe.closing(1.5 * scale))):
                    r_bool = np.asarray(conv(mask, scale), dtype=np.float64)
                    try:
                        r_other = np.asarray(conv(mask.astype(mdt), scale), dtype=np.float64)
                    except Exception as e:  # noqa: BLE001
                        import traceback
                        if not any("/acryo/" in f.filename for f in traceback.extract_tb(e.__traceback__)):
                            raise
                        out.append(viol(f"C19/binary-mask-dtype:{cname}", f"{cname} on the 0/1 mask as {mdt}: {type(e).__name__}: {str(e)[:100]}"))
                        continue
                    if r_other.shape != r_bool.shape or not np.allclose(r_other, r_bool, atol=1e-6):
                        out.append(viol(f"C19/binary-mask-dtype:{cname}", f"{cname} gives a different result for the same 0/1 mask as {mdt} (max diff {np.abs(r_other - r_bool).max():.3g})"))
            so = np.asarray(pipe.soft_otsu(sigma=s_px * scale, radius=d["rpx"] * scale)(blob_image(d["seed"]), scale), dtype=np.float64)
            hard = np.asarray(pipe.threshold_otsu()(blob_image(d["seed"]), scale), bool)
            contains = bool(np.all(so >= hard - 1e-6)) if d["rpx"] >= 0 else True  # a negative radius erodes first
            if so.min() < -1e-6 or so.max() > 1 + 1e-6 or not contains:
                out.append(viol("C19/soft_otsu-law", f"soft_otsu(sigma={s_px}px, radius={d['rpx']}px): values in [{so.min():.3g},{so.max():.3g}], contains the Otsu mask: {bool(np.all(so >= hard - 1e-6))}"))
        elif kind == "gaussian":
            shp_px = np.array(d["gshape"], dtype=np.float64)     # integer pixel shape
            sig_px = np.array(d["gsigma"], dtype=np.float64)
            sh_px = np.array(d["gshift"], dtype=np.float64)
            sg = tuple(sig_px * scale) if d["sigma_tuple"] else float(sig_px[0] * scale)
            if not d["sigma_tuple"]:
                sig_px = np.array([sig_px[0]] * 3)
            # the box size in nm need not be a whole number of pixels: it is rounded to shp_px voxels, and the Gaussian is centred
            # in *that* box
            shp_nm = (shp_px + np.array(d.get("gfrac", [0.0, 0.0, 0.0]))) * scale
            g = np.asarray(pipe.from_gaussian(tuple(shp_nm), sg, tuple(sh_px * scale))(scale), dtype=np.float64)
            if g.shape != tuple(int(s) for s in shp_px):
                out.append(viol("C19/from_gaussian-shape", f"shape {tuple(shp_nm)} nm at scale {scale}: {g.shape} != {tuple(int(s) for s in shp_px)}"))
            else:
                grids = np.indices(g.shape, dtype=np.float64)
                c = (shp_px - 1) / 2 + sh_px
                want = np.exp(-0.5 * sum(((grids[i] - c[i]) / sig_px[i]) ** 2 for i in range(3)))
                e = float(np.abs(g - want).max())
                if not e <= 1e-4:
                    pk = np.unravel_index(int(np.argmax(g)), g.shape)
                    out.append(viol("C19/from_gaussian", f"shape={tuple(int(s) for s in shp_px)}px sigma={sig_px.tolist()}px shift={sh_px.tolist()}px scale={scale}: "
                                    f"differs from exp(-sum((x-c)^2/2 sigma^2)) by {e:.3g}; peak at {tuple(int(p) for p in pk)} (value {g.max():.3g}), expected centre {c.tolist()}"))
                g2 = np.asarray(pipe.from_gaussian(tuple(shp_nm * lam), tuple(sig_px * scale * lam) if d["sigma_tuple"] else float(sig_px[0] * scale * lam),
                                                   tuple(sh_px * scale * lam))(scale * lam), dtype=np.float64)
                if g2.shape != g.shape or not close(g, g2):
                    out.append(viol("C19/scale-covariance:from_gaussian", f"lambda={lam}: from_gaussian changes when parameters and scale are multiplied together"))
        elif kind == "rescale":
            blob = blob_image(d["seed"])
            osc = d["oscale"]
            ratio = d["ratio"]                     # original_scale / requested scale
            req = osc / ratio
            prov = pipe.from_array(blob, original_scale=osc, tol=d["tol"])
            res = prov(req)
            if abs(ratio - 1) < d["tol"] * 0.9:
                if res is not blob and not np.array_equal(res, blob):
                    out.append(viol("C19/rescale-within-tolerance", f"ratio {ratio} within tol {d['tol']}: image was changed"))
                lst = pipe.from_arrays([blob, blob * 2], original_scale=osc, tol=d["tol"])(req)
                if len(lst) != 2 or lst[0].shape != blob.shape or not np.array_equal(lst[0], blob) or not np.array_equal(lst[1], blob * 2):
                    out.append(viol("C19/from_arrays-within-tolerance", f"ratio {ratio} within tol {d['tol']}: from_arrays changed the images (shape {lst[0].shape} vs {blob.shape})"))
            elif abs(ratio - 1) > d["tol"] * 1.1:
                want_shape = tuple(int(round(n * ratio)) for n in blob.shape)
                if res.shape != want_shape:
                    out.append(viol("C19/rescale-shape", f"ratio {ratio}: shape {res.shape}, expected round(n*ratio) = {want_shape}"))
                else:
                    com_o = (np.array(ndi.center_of_mass(blob)) + 0.5) / np.array(blob.shape)
                    com_r = (np.array(ndi.center_of_mass(np.clip(res, 0, None))) + 0.5) / np.array(res.shape)
                    if not np.abs(com_o - com_r).max() * min(res.shape) <= 0.6:
                        out.append(viol("C19/rescale-centre", f"ratio {ratio}: relative centre of mass moved from {com_o.round(3).tolist()} to {com_r.round(3).tolist()}"))
                    lst = pipe.from_arrays([blob, blob * 2], original_scale=osc, tol=d["tol"])(req)
                    if len(lst) != 2 or not close(lst[0], res) or not close(lst[1], res * 2):
                        out.append(viol("C19/from_arrays", "from_arrays differs from from_array applied to each image"))
        elif kind == "curry":
            from acryo.pipe import provider_function, converter_function
            a, b = d["a"], d["b"]

            def fconv(im, sc, p, q=3.0):
                return im * p + q * sc

            def fprov(sc, p, q=3.0):
                return np.full(SHAPE, p * sc + q, dtype=np.float32)

            cc = converter_function(fconv)
            pp = provider_function(fprov)
            if not close(cc(a, q=b)(img, scale), fconv(img, scale, a, q=b)) or not close(cc(a)(img, scale), fconv(img, scale, a)):
                out.append(viol("C19/curried-converter", "converter_function(f)(*args)(img, scale) != f(img, scale, *args)"))
            if not close(pp(a, q=b)(scale), fprov(scale, a, q=b)) or not close(pp(a)(scale), fprov(scale, a)):
                out.append(viol("C19/curried-provider", "provider_function(f)(*args)(scale) != f(scale, *args)"))
            ld = SubtomogramLoader(np.zeros((12, 12, 12), dtype=np.float32), Molecules([[6, 6, 6]]), scale=scale, output_shape=SHAPE)
            t = ld.normalize_template(pp(a, q=b))
            m = ld.normalize_mask(cc(a, q=b))
            if not close(t, fprov(scale, a, q=b)):
                out.append(viol("C19/normalize_template", "loader.normalize_template(provider) != provider(loader.scale)"))
            if not callable(m) or not close(m(img), fconv(img, scale, a, q=b)):
                out.append(viol("C19/normalize_mask", "loader.normalize_mask(converter)(img) != converter(img, loader.scale)"))
            t2, m2 = ld.normalize_input(pp(a), cc(a, q=b))
            if not close(t2, fprov(scale, a)) or not close(m2, fconv(fprov(scale, a), scale, a, q=b)):
                out.append(viol("C19/normalize_input", "loader.normalize_input(provider, converter) != (provider(scale), converter(template, scale))"))
        else:
            raise HarnessError(kind)
    return out


def make_mask(seed, margin):
    a = gen.smooth_noise(seed, (20, 20, 20), sigma=1.5)
    m = a > 0.3
    if margin > 0:
        core = np.zeros_like(m)
        core[margin:-margin, margin:-margin, margin:-margin] = True
        m &= core
    if not m.any():
        m[10, 10, 10] = True
    return m


def blob_image(seed):
    rng = np.random.Generator(np.random.Philox(seed))
    c = np.array([7.5, 8.0, 8.5]) + rng.uniform(-1.5, 1.5, 3)
    g = np.indices((16, 17, 18), dtype=np.float64)
    return np.exp(-sum((g[i] - c[i]) ** 2 for i in range(3)) / (2 * 2.0 ** 2)).astype(np.float32)


# ------------------------------------------------------------------ strategies

scalars = st.sampled_from([2.0, -1.5, 0.5, 3.0, 6.0, 0.25])
nice_scales = st.sampled_from([1.0, 0.5, 2.0, 0.25, 1.37, 0.731])


def provider_leaf(scale):
    return st.one_of(
        st.builds(lambda s, k: {"t": "from_array", "seed": s, "kind": k, "oscale": scale}, gen.seeds, st.sampled_from(["noise", "positive"])),
        st.just({"t": "prov", "name": "p0", "args": []}),
        st.just({"t": "prov", "name": "p1", "args": []}),
        st.builds(lambda a, b: {"t": "prov", "name": "p3", "args": [a, b]}, scalars, scalars),
    )


def converter_leaf():
    return st.one_of(
        st.builds(lambda s: {"t": "conv", "name": "gaussian_filter", "args": [s]}, st.sampled_from([0.8, 1.3, 2.1])),
        st.builds(lambda c: {"t": "conv", "name": "lowpass_filter", "args": [c]}, st.sampled_from([0.2, 0.45])),
        st.builds(lambda v: {"t": "conv", "name": "shift", "args": v}, st.lists(st.sampled_from([-1.2, 0.0, 0.7, 2.0]), min_size=3, max_size=3)),
        st.just({"t": "conv", "name": "c0", "args": []}),
        st.just({"t": "conv", "name": "c1", "args": []}),
        st.just({"t": "conv", "name": "c2", "args": []}),
        st.builds(lambda a, b: {"t": "conv", "name": "c4", "args": [a, b]}, scalars, scalars),
    )


ARITH = ["+", "-", "*", "/"]
CMP = ["<", "<=", ">", ">=", "==", "!="]


def positive_provider(scale):
    return st.builds(lambda s: {"t": "from_array", "seed": s, "kind": "positive", "oscale": scale}, gen.seeds)


def positive_converter():
    return st.builds(lambda k: {"t": "conv", "name": "cpos", "args": [k]}, st.sampled_from([1.0, 2.5]))


def exprs(scale):
    sc = st.builds(lambda v: {"t": "scalar", "v": v}, scalars)

    def extend(children):
        prov, conv = children
        new_prov = st.one_of(
            st.builds(lambda x: {"t": "neg", "x": x}, prov),
            st.builds(lambda op, l, r: {"t": "binop", "op": op, "l": l, "r": r}, st.sampled_from(["+", "-", "*"]), prov, st.one_of(prov, sc)),
            st.builds(lambda op, l, r: {"t": "binop", "op": op, "l": l, "r": r}, st.sampled_from(ARITH), sc, st.one_of(prov.filter(lambda e: False), positive_provider(scale))),
            st.builds(lambda op, l, r: {"t": "binop", "op": op, "l": l, "r": r}, st.sampled_from(["+", "-", "*"]), sc, prov),
            st.builds(lambda l, r: {"t": "binop", "op": "/", "l": l, "r": r}, prov, st.one_of(sc, positive_provider(scale))),
            st.builds(lambda f, g: {"t": "compose", "f": f, "g": g}, conv, prov),
        )
        new_conv = st.one_of(
            st.builds(lambda x: {"t": "neg", "x": x}, conv),
            st.builds(lambda op, l, r: {"t": "binop", "op": op, "l": l, "r": r}, st.sampled_from(["+", "-", "*"]), conv, st.one_of(conv, prov, sc)),
            st.builds(lambda op, l, r: {"t": "binop", "op": op, "l": l, "r": r}, st.sampled_from(["+", "-", "*"]), sc, conv),
            st.builds(lambda l, r: {"t": "binop", "op": "/", "l": l, "r": r}, conv, st.one_of(sc, positive_provider(scale), positive_converter())),
            st.builds(lambda l, r: {"t": "binop", "op": "/", "l": l, "r": r}, sc, positive_converter()),
            st.builds(lambda f, g: {"t": "compose", "f": f, "g": g}, conv, conv),
        )
        return new_prov, new_conv

    prov, conv = provider_leaf(scale), converter_leaf()
    levels = [(prov, conv)]
    for _ in range(3):
        np_, nc_ = extend(levels[-1])
        levels.append((st.one_of(levels[-1][0], np_), st.one_of(levels[-1][1], nc_)))
    P, C = levels[-1]
    # comparisons yield masks (bool or 0/1 float): generated at the root only, arithmetic on masks is not claimed
    cmpP = st.one_of(
        st.builds(lambda op, l, r: {"t": "cmp", "op": op, "l": l, "r": r}, st.sampled_from(CMP), P, st.one_of(P, sc)),
        st.builds(lambda op, l, r: {"t": "cmp", "op": op, "l": l, "r": r}, st.sampled_from(["<", "<=", ">", ">="]), sc, P))
    cmpC = st.one_of(
        st.builds(lambda op, l, r: {"t": "cmp", "op": op, "l": l, "r": r}, st.sampled_from(CMP), C, st.one_of(C, P, sc)),
        st.builds(lambda op, l, r: {"t": "cmp", "op": op, "l": l, "r": r}, st.sampled_from(["<", ">="]), sc, C))
    # the usual idiom for inverting a mask: scalar - (comparison); numpy defines it for boolean arrays
    inv = st.builds(lambda v, m: {"t": "binop", "op": "-", "l": {"t": "scalar", "v": v}, "r": m}, st.sampled_from([1, 1.0, 2.0]), st.one_of(cmpP, cmpC))
    return st.one_of(P, C, P, C, levels[1][0], levels[1][1], cmpP, cmpC, inv)


@st.composite
def expr_cases(draw):
    scale = draw(nice_scales)
    return {"scale": scale, "expr": draw(exprs(scale)), "img_seed": draw(gen.seeds)}


@st.composite
def tie_cases(draw):
    """comparison of every pair of operand kinds (converter / provider / scalar) on small-integer images: ties everywhere"""
    scale = draw(st.sampled_from([1.0, 2.0, 0.5]))
    seeds = st.sampled_from([5, 6])
    sc = st.builds(lambda v: {"t": "scalar", "v": v}, st.sampled_from([-2.0, 0.0, 1.0, 2.0, 4.0, 2]))
    prov0 = st.one_of(st.builds(lambda s_: {"t": "from_array", "seed": s_, "kind": "quant", "oscale": scale}, seeds),
                      st.just({"t": "prov", "name": "p1", "args": []}))
    prov = st.one_of(prov0, prov0, st.builds(lambda x: {"t": "neg", "x": x}, prov0),
                     st.builds(lambda l, r: {"t": "binop", "op": "*", "l": l, "r": r}, prov0, st.just({"t": "scalar", "v": 2.0})))
    conv0 = st.one_of(st.just({"t": "conv", "name": "c1", "args": []}), st.just({"t": "conv", "name": "c4", "args": [1.0, 0.0]}),
                      st.just({"t": "conv", "name": "c4", "args": [-1.0, 0.0]}), st.just({"t": "conv", "name": "c2", "args": []}))
    conv = st.one_of(conv0, conv0, st.builds(lambda x: {"t": "neg", "x": x}, conv0),
                     st.builds(lambda f, g: {"t": "compose", "f": f, "g": g}, conv0, conv0))
    # provider OP converter is not an offered combination (ImageProvider operators only know providers and scalars)
    pair = draw(st.sampled_from(["cc", "cp", "cs", "pp", "ps", "sc", "sp"]))
    pick = {"c": conv, "p": prov, "s": sc}
    expr = {"t": "cmp", "op": draw(st.sampled_from(CMP)), "l": draw(pick[pair[0]]), "r": draw(pick[pair[1]])}
    return {"scale": scale, "expr": expr, "img_seed": draw(seeds), "img_kind": "quant", "pair": pair}


@st.composite
def unit_cases(draw):
    kind = draw(st.sampled_from(["cov-gaussian_filter", "cov-shift", "cov-dilation", "cov-closing", "cov-closing", "smooth", "gaussian", "gaussian", "rescale", "curry"]))
    d = {"kind": kind, "scale": draw(nice_scales), "lam": draw(st.sampled_from([1.0, 0.5, 2.0, 1.7, 0.3, 3.0])), "seed": draw(gen.seeds)}
    if kind == "cov-gaussian_filter":
        # kernel radius int(4 sigma + 0.5): keep 4*sigma + 0.5 at least 0.05 from an integer
        d["px"] = draw(st.sampled_from([0.7, 0.95, 1.2, 1.45, 1.7, 2.2]))
    elif kind == "cov-shift":
        d["vec"] = [draw(st.sampled_from([-1.3, 0.0, 0.4, 2.2, 1.0, -2.0, 3.0])) for _ in range(3)]
    elif kind in ("cov-dilation", "cov-closing"):
        d["px"] = draw(st.sampled_from([0.4, 0.9, 1.3, 1.7, 2.4, 2.8]))
        d["sign"] = draw(st.sampled_from([1, -1]))
        d["touch"] = draw(st.sampled_from([True, True, False]))
    elif kind == "smooth":
        d["mask_dtype"] = draw(st.sampled_from(["bool", "uint8", "float32"]))
        d["px"] = draw(st.sampled_from([0.6, 1.0, 1.8, 2.5]))
        d["rpx"] = draw(st.sampled_from([0.5, 1.4, 2.3, -1.4]))
    elif kind == "gaussian":
        d["gshape"] = [draw(st.integers(5, 12)) for _ in range(3)]
        d["gfrac"] = [draw(st.sampled_from([0.0, 0.0, 0.3, -0.3, 0.45, -0.2])) for _ in range(3)]
        d["gsigma"] = [draw(st.sampled_from([0.8, 1.2, 1.9, 2.6])) for _ in range(3)]
        d["gshift"] = [draw(st.sampled_from([0.0, 0.0, 0.75, -1.25, 1.5])) for _ in range(3)]
        d["sigma_tuple"] = draw(st.booleans())
        # shape_px must survive round(shape_nm / scale) for both scales: integers do
    elif kind == "rescale":
        d["oscale"] = draw(st.sampled_from([1.0, 0.5, 1.37]))
        d["tol"] = draw(st.sampled_from([0.01, 0.05, 0.1]))
        d["ratio"] = draw(st.sampled_from([1.0, 1.004, 0.997, 1.04, 0.96, 1.08, 1.5, 0.5, 2.0, 0.75, 1.25]))
    else:
        d["a"], d["b"] = draw(scalars), draw(scalars)
    return d


def nontrivial_expr(d):
    e = d["expr"]
    refl = has(e, lambda x: x["t"] in ("binop", "cmp") and x["l"]["t"] == "scalar")
    comp = has(e, lambda x: x["t"] == "compose")
    return depth(e) >= 2 and (refl or comp)


def labels_expr(d):
    e = d["expr"]
    labs = {f"depth:{min(depth(e), 5)}", f"kind:{kind_of(e)}"}
    if has(e, lambda x: x["t"] in ("binop",) and x["l"]["t"] == "scalar" and x["op"] in ("-", "/")):
        labs.add("reflected:-or/")
    if has(e, lambda x: x["t"] in ("binop", "cmp") and x["l"]["t"] == "scalar"):
        labs.add("reflected:any")
    if has(e, lambda x: x["t"] == "compose"):
        labs.add("compose")
    if has(e, lambda x: x["t"] == "compose" and x["f"]["t"] == "compose"):
        labs.add("compose-chain")
    if has(e, lambda x: x["t"] == "cmp"):
        labs.add("comparison")
    return sorted(labs)


def engines():
    return [
        Engine("expr", judge_expr, strategy=expr_cases(), nontrivial=nontrivial_expr, labels=labels_expr,
               cases={"quick": 500, "thorough": 20000}, shards={"quick": 8, "thorough": 16}),
        Engine("ties", judge_expr, strategy=tie_cases(), nontrivial=lambda d: d.get("_ties", 1) > 0,
               labels=lambda d: [f"pair:{d['pair']}", f"op:{d['expr']['op']}"],
               cases={"quick": 300, "thorough": 6000}, shards={"quick": 6, "thorough": 16}),
        Engine("units", judge_units, strategy=unit_cases(), nontrivial=lambda d: d["lam"] != 1.0 or d["kind"] in ("gaussian", "rescale", "curry"),
               labels=lambda d: [f"kind:{d['kind']}", f"lambda:{d['lam']}"],
               cases={"quick": 250, "thorough": 6000}, shards={"quick": 8, "thorough": 16}),
    ]
