"""C13 - Saved molecules reload unchanged."""
from __future__ import annotations

import math
import os
import tempfile

import numpy as np
from hypothesis import strategies as st
from scipy.spatial.transform import Rotation

from vlib import gen
from vlib.runner import Engine, viol

PROPERTY = "C13"
RULE = ("Hypothesis draws a molecule table (1..40 rows; positions in +-1e4 incl. fractional and tiny values; "
        "orientation classes identity / tiny angle / near-pi / exactly pi about an axis / generic; feature columns "
        "int / float (incl. NaN, 1e+-9) / str (commas, quotes, unicode, padding) / bool with nulls, every column "
        "keeping >= 1 non-null value), a float_precision in {None, 0..8} and a file suffix; the table is written "
        "and read back through to_dataframe/from_dataframe, to_parquet/from_parquet, to_csv/from_csv and "
        "to_file/from_file, and compared with the original (exact for data frames/parquet, to the requested "
        "decimal precision for CSV). Non-trivial = a near-0 / near-pi / pi orientation or a non-numeric / "
        "null-bearing feature column.")
RULE += (" " + 'Also: strings that look like ISO dates / times.')
TOLERANCES = {"parquet/dataframe": "pos bit-equal float32; rotation <= 1e-6 rad; features equal incl. dtype",
              "csv(p)": "|dpos| <= 0.5*10^-p + float32 ulp; rotation <= sqrt(3)*0.5*10^-p + 1e-6; float features 0.5*10^-p",
              "csv(None)": "float32 shortest repr round trip: exact"}
ASSUMPTIONS = ["strings that CSV type inference cannot tell from other types (empty, numeric-looking, true/false, NaN, null) are not generated",
               "dtype equality is not asserted for CSV (a float column printed with 0 decimals is read back as integers)"]

STRS = ["p", "a,b", 'say "hi"', " padded ", "ünï", "日本", "x;y", "tab\tsep", "A", "semi'quote", "new line".replace(" ", "_"), "2023-10-02", "08:15:00", "2023-10-02T08:15:00"]


def build(d):
    from acryo import Molecules
    import polars as pl

    n = len(d["rows"])
    pos = np.array([r["pos"] for r in d["rows"]], dtype=np.float32)
    rot = Rotation.from_rotvec(np.array([r["rot"]["rv"] for r in d["rows"]], dtype=np.float64))
    feats = None
    if d["cols"]:
        dts = {"int": pl.Int64, "float": pl.Float64, "str": pl.String, "bool": pl.Boolean}
        data = {}
        for c in d["cols"]:
            vals = [c["vals"][i % len(c["vals"])] for i in range(n)]
            if all(v is None for v in vals):
                vals[0] = c["fill"]
            if c["kind"] == "float":
                vals = [None if v is None else (float("nan") if v == "nan" else float(v)) for v in vals]
            data[c["name"]] = pl.Series(c["name"], vals, dtype=dts[c["kind"]])
        feats = pl.DataFrame(data)
    return Molecules(pos, rot, features=feats)


def rot_dist(a: Rotation, b: Rotation):
    return float(np.max((a.inv() * b).magnitude()))


def compare(tag, orig, back, out, p, exact, d):
    """p: decimal precision of the text format (None = shortest repr), exact: parquet/dataframe."""
    n = len(orig)
    if len(back) != n:
        out.append(viol("C13/length", f"{tag}: {len(back)} molecules read back, {n} written"))
        return
    if exact or p is None:
        if not np.array_equal(orig.pos, back.pos):
            out.append(viol("C13/position", f"{tag}: positions changed (max {np.abs(orig.pos - back.pos).max():.3g})"))
        rtol = 1e-6
    else:
        tol = 0.5 * 10.0 ** (-p)
        ulp = np.spacing(np.abs(orig.pos).astype(np.float32)).astype(np.float64)
        err = np.abs(orig.pos.astype(np.float64) - back.pos.astype(np.float64))
        if not np.all(err <= tol * (1 + 1e-6) + 2 * ulp):
            out.append(viol("C13/position", f"{tag}: position error {err.max():.3g} > 0.5e-{p}"))
        rtol = math.sqrt(3) * tol + 1e-6
    rd = rot_dist(orig.rotator, back.rotator)
    if not rd <= rtol:
        out.append(viol("C13/orientation", f"{tag}: orientation changed by {rd:.3g} rad (> {rtol:.3g})"))
    fo, fb = orig.features, back.features
    if list(fo.columns) != list(fb.columns):
        out.append(viol("C13/feature-columns", f"{tag}: feature columns {fb.columns} != {fo.columns}"))
        return
    for c in fo.columns:
        a, b = fo[c], fb[c]
        if exact and a.dtype != b.dtype:
            out.append(viol("C13/feature-dtype", f"{tag}: column {c} dtype {b.dtype} != {a.dtype}"))
            continue
        la, lb = a.to_list(), b.to_list()
        kind = next(cc["kind"] for cc in d["cols"] if cc["name"] == c)
        for i, (x, y) in enumerate(zip(la, lb)):
            if x is None or y is None:
                ok = x is None and y is None
            elif kind == "float":
                try:
                    y = float(y)
                except (TypeError, ValueError):
                    ok = False
                else:
                    if math.isnan(x) or math.isnan(y):
                        ok = math.isnan(x) and math.isnan(y)
                    elif exact or p is None:
                        ok = x == y
                    else:
                        ok = abs(x - y) <= 0.5 * 10.0 ** (-p) * (1 + 1e-6) + 4 * np.spacing(abs(x))
            else:
                ok = x == y and type(x) is type(y)
            if not ok:
                out.append(viol(f"C13/feature-value:{kind}", f"{tag}: column {c} row {i}: {y!r} != {x!r}"))
                break


def judge(d):
    from acryo import Molecules
    import polars as pl

    out = []
    m = build(d)
    p = d["precision"]
    names = ["z", "y", "x", "zvec", "yvec", "xvec"] + [c["name"] for c in d["cols"]]
    # data frame
    df = m.to_dataframe()
    if list(df.columns) != names:
        out.append(viol("C13/column-order", f"to_dataframe columns {df.columns} != {names}"))
    if df.height != len(m):
        out.append(viol("C13/length", f"to_dataframe has {df.height} rows for {len(m)} molecules"))
    compare("dataframe", m, Molecules.from_dataframe(df), out, None, True, d)
    with tempfile.TemporaryDirectory(prefix="c13_") as tmp:
        # parquet, explicit
        f = os.path.join(tmp, "a.bin")
        m.to_parquet(f)
        if open(f, "rb").read(4) != b"PAR1":
            out.append(viol("C13/parquet-format", "to_parquet did not write a parquet file"))
        compare("parquet", m, Molecules.from_parquet(f), out, None, True, d)
        if list(pl.read_parquet(f).columns) != names:
            out.append(viol("C13/column-order", f"parquet columns {pl.read_parquet(f).columns} != {names}"))
        # csv, explicit precision
        f = os.path.join(tmp, "b.dat")
        m.to_csv(f, float_precision=p)
        header = open(f, encoding="utf-8").readline().rstrip("\n").rstrip("\r")
        if header.split(",")[:6] != names[:6] or len(header.split(",")) != len(names):
            out.append(viol("C13/column-order", f"csv header {header!r} != {names}"))
        compare(f"csv(precision={p})", m, Molecules.from_csv(f), out, p, False, d)
        # dispatch by suffix
        suffix = d["suffix"]
        f = os.path.join(tmp, "c" + suffix)
        m.to_file(f)
        magic = open(f, "rb").read(4)
        is_pq = suffix in (".parquet", ".pq")
        if is_pq != (magic == b"PAR1"):
            out.append(viol("C13/suffix-dispatch", f"to_file('{suffix}') wrote {'parquet' if magic == b'PAR1' else 'text'}"))
        back = Molecules.from_file(f)
        if is_pq:
            compare(f"file{suffix}", m, back, out, None, True, d)
        else:
            compare(f"file{suffix}", m, back, out, 4, False, d)
            # cross-reading: a text file written by to_file is readable by from_csv
            compare(f"file{suffix}->from_csv", m, Molecules.from_csv(f), out, 4, False, d)
        # the same object, modified in place after it has been saved once, must be saved in its new state
        mod = d.get("modify")
        if mod:
            n = len(m)
            if mod == "rotate":
                m.rotate_by_rotvec(np.tile([0.3, -0.2, 0.5], (n, 1)), copy=False)
            elif mod == "rotate-internal":
                m.rotate_by_rotvec_internal(np.tile([-0.4, 0.1, 0.2], (n, 1)), copy=False)
            elif mod == "translate":
                m.translate([1.5, -2.25, 0.75], copy=False)
            elif mod == "features":
                import polars as pl
                m.features = m.features.with_columns(pl.Series("extra", list(range(n)))) if d["cols"] else {"extra": list(range(n))}
                d = dict(d)
                d["cols"] = d["cols"] + [{"name": "extra", "kind": "int", "vals": list(range(n)), "fill": 0}]
            elif mod == "append":
                m.append(m.subset(slice(0, 1)))
            expected = Molecules(m.pos.copy(), Rotation.from_quat(m.quaternion().copy()), features=m.features.clone() if len(m.features.columns) else None)
            compare(f"after in-place {mod}: dataframe", expected, Molecules.from_dataframe(m.to_dataframe()), out, None, True, d)
            f = os.path.join(tmp, "again.parquet")
            m.to_file(f)
            compare(f"after in-place {mod}: parquet", expected, Molecules.from_file(f), out, None, True, d)
            f = os.path.join(tmp, "again.csv")
            m.to_csv(f, float_precision=p)
            compare(f"after in-place {mod}: csv(precision={p})", expected, Molecules.from_csv(f), out, p, False, d)
    return out


@st.composite
def rot_for_io(draw):
    cls = draw(st.sampled_from(["identity", "tiny", "nearpi", "pi-axis", "pi", "generic", "generic"]))
    if cls == "pi-axis":
        ax = draw(st.sampled_from([[1, 0, 0], [0, 1, 0], [0, 0, 1], [-1, 0, 0], [0, -1, 0], [0, 0, -1]]))
        return {"cls": cls, "rv": [a * math.pi for a in ax]}
    return draw(gen.rotvecs(classes=(cls,)))


posval = st.one_of(st.floats(-1e4, 1e4).map(lambda v: round(v, 3)), st.integers(-9999, 9999).map(float),
                   st.sampled_from([0.0, 1e-7, -3e-5, 0.00005, 0.12345678, 9999.99951, -0.5, 2.5e-5]))


@st.composite
def column(draw, name):
    kind = draw(st.sampled_from(["int", "float", "str", "bool"]))
    if kind == "int":
        base = st.one_of(st.integers(-5, 5), st.sampled_from([2**40, -2**40, 10**15]))
        fill = 1
    elif kind == "float":
        base = st.one_of(st.floats(-100, 100).map(lambda v: round(v, 6)),
                         st.sampled_from([1e9, -1e9, 1e-9, 123456.789012, 0.5, 0.00005, "nan", 1.0, 2.0]))
        fill = 0.25
    elif kind == "str":
        base = st.sampled_from(STRS)
        fill = "p"
    else:
        base = st.booleans()
        fill = True
    vals = draw(st.lists(st.one_of(base, base, base, st.none()), min_size=1, max_size=6))
    return {"name": name, "kind": kind, "vals": vals, "fill": fill}


@st.composite
def cases(draw):
    n = draw(st.one_of(st.integers(1, 6), st.integers(1, 40)))
    rows = [{"pos": [draw(posval) for _ in range(3)], "rot": draw(rot_for_io())} for _ in range(n)]
    ncol = draw(st.integers(0, 4))
    names = draw(st.permutations(["score", "label", "A", "pf-id", "nth", "Zed"]))[:ncol]
    cols = [draw(column(nm)) for nm in names]
    return {"rows": rows, "cols": cols, "precision": draw(st.sampled_from([None, 0, 1, 2, 3, 4, 4, 5, 6, 8])),
            "suffix": draw(st.sampled_from([".csv", ".txt", ".parquet", ".pq", "", ".tsv", ".PARQUET", ".dat"])),
            "modify": draw(st.sampled_from([None, "rotate", "rotate-internal", "translate", "features", "append"]))}


def nontrivial(d):
    return any(r["rot"]["cls"] in ("tiny", "nearpi", "pi", "pi-axis", "identity") for r in d["rows"]) or \
        any(c["kind"] in ("str", "bool") or any(v is None for v in c["vals"]) for c in d["cols"])


def labels(d):
    labs = {f"rot:{r['rot']['cls']}" for r in d["rows"]}
    labs |= {f"col:{c['kind']}" for c in d["cols"]}
    labs.add(f"precision:{d['precision']}")
    labs.add(f"suffix:{d['suffix'] or '(none)'}")
    labs.add(f"then-modify:{d.get('modify')}")
    labs.add("rows:" + ("1" if len(d["rows"]) == 1 else "2-6" if len(d["rows"]) <= 6 else "7-40"))
    if any(v is None for c in d["cols"] for v in c["vals"]):
        labs.add("nulls")
    return sorted(labs)


def engines():
    return [Engine("roundtrip", judge, strategy=cases(), nontrivial=nontrivial, labels=labels,
                   cases={"quick": 300, "thorough": 12000}, shards={"quick": 4, "thorough": 16})]
