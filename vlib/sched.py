"""Harness-owned schedules for C10.

* owned_get(choices): a dask scheduler (usable with dask.config.set(scheduler=...)) that executes the task graph
  in an order chosen by the harness: dask's own local scheduler (dask.local.get_async) decides which tasks are
  *ready*; whenever it waits for a result, the harness picks which pending task finishes next. Every order produced
  this way is a valid topological order that a threaded scheduler could produce.
* Coop: a cooperative scheduler for real Python threads. Exactly one thread runs between schedule points; at each
  point the running thread parks and a drawn schedule decides who continues. Schedule points are placed at accesses
  to shared mutable state (see instrument_model), so every explored interleaving is one CPython could produce by a
  GIL hand-over at that call.
"""
from __future__ import annotations

import queue
import threading
from concurrent.futures import Future


class _Deferred:
    def __init__(self):
        self.pending = []

    def submit(self, fn, *a, **k):
        f = Future()
        self.pending.append((f, fn, a, k))
        return f


def owned_get(choices, width=4, log=None):
    """dask `get` whose completion order is taken from `choices` (ints, used modulo the number of pending tasks)."""
    from dask.local import get_async
    import dask.local as dl

    it = {"i": 0}

    def choose(n):
        if not choices:
            return 0
        c = choices[it["i"] % len(choices)] % n
        it["i"] += 1
        return c

    def get(dsk, keys, **kwargs):
        ex = _Deferred()

        class Q(queue.Queue):
            def get(self_q, *a, **k):
                while self_q.empty():
                    if not ex.pending:
                        break
                    i = choose(len(ex.pending))
                    f, fn, aa, kk = ex.pending.pop(i)
                    if log is not None:
                        log.append(i)
                    try:
                        f.set_result(fn(*aa, **kk))
                    except BaseException as e:  # noqa: BLE001
                        f.set_exception(e)
                return super().get(*a, **k)

        old = dl.Queue
        dl.Queue = Q
        try:
            return get_async(ex.submit, width, dsk, keys, **kwargs)
        finally:
            dl.Queue = old

    return get


class Coop:
    def __init__(self, schedule):
        self.cv = threading.Condition()
        self.turn = None
        self.parked = {}
        self.done = set()
        self.schedule = list(schedule)
        self.pos = 0
        self.trace = []
        self.names = []

    def choose(self, n):
        if self.pos < len(self.schedule):
            c = self.schedule[self.pos] % n
        else:
            c = 0
        self.pos += 1
        return c

    def point(self, tag=""):
        me = threading.current_thread().name
        if me not in self.names:
            return
        with self.cv:
            self.parked[me] = tag
            self.turn = None
            self.cv.notify_all()
            self.cv.wait_for(lambda: self.turn == me)
            del self.parked[me]

    def run(self, fns, timeout=300.0):
        self.names = [f"coop-w{i}" for i in range(len(fns))]
        res = {}

        def wrap(name, fn):
            def go():
                self.point("start")
                try:
                    res[name] = ("ok", fn())
                except BaseException as e:  # noqa: BLE001
                    res[name] = ("err", e)
                with self.cv:
                    self.done.add(name)
                    self.turn = None
                    self.cv.notify_all()
            return go

        ths = [threading.Thread(target=wrap(n, f), name=n, daemon=True) for n, f in zip(self.names, fns)]
        for t in ths:
            t.start()
        while True:
            with self.cv:
                ok = self.cv.wait_for(lambda: self.turn is None and len(self.parked) + len(self.done) == len(ths), timeout=timeout)
                if not ok:
                    raise RuntimeError("cooperative scheduler: threads did not reach a schedule point (harness dead-lock)")
                if len(self.done) == len(ths):
                    break
                cand = sorted(self.parked)
                pick = cand[self.choose(len(cand))]
                self.trace.append((pick, self.parked[pick]))
                self.turn = pick
                self.cv.notify_all()
        for t in ths:
            t.join()
        return [res[n] for n in self.names]


def instrument_model(model, coop):
    """Replace the model's template/mask cache dict by one with schedule points at get / set / values-iteration."""
    # the cache object is a private detail of the model: look it up by name, else by shape (an attribute holding an object
    # with a dict-typed attribute); if the model keeps no such cache any more, only attribute writes are schedule points
    cache, dname = getattr(model, "_template_mask_cache", None), "_dict"
    if cache is None or not isinstance(getattr(cache, dname, None), dict):
        cache = None
        for v in list(vars(model).values()):
            for k2, v2 in list(getattr(v, "__dict__", {}).items()):
                if isinstance(v2, dict) and type(v).__module__.startswith("acryo"):
                    cache, dname = v, k2
                    break
            if cache is not None:
                break

    class View:
        def __init__(s, d):
            s.d = d

        def __iter__(s):
            it = iter(dict.values(s.d))
            coop.point("cache.values.iter")  # after the iterator exists, before it is advanced
            return it

        def __len__(s):
            return dict.__len__(s.d)

    class IDict(dict):
        def get(s, k, d=None):
            coop.point("cache.get")
            return dict.get(s, k, d)

        def __getitem__(s, k):
            coop.point("cache.getitem")
            return dict.__getitem__(s, k)

        def __contains__(s, k):
            coop.point("cache.contains")
            return dict.__contains__(s, k)

        def __setitem__(s, k, v):
            coop.point("cache.set")
            dict.__setitem__(s, k, v)

        def setdefault(s, k, v=None):
            coop.point("cache.setdefault")
            return dict.setdefault(s, k, v)

        def values(s):
            return View(s)

    if cache is not None:
        setattr(cache, dname, IDict(getattr(cache, dname)))

    # any attribute written on the shared model while tasks run is shared mutable state too:
    # a schedule point before every attribute write (reads happen while other threads are parked)
    base = type(model)

    class Instrumented(base):  # type: ignore[misc, valid-type]
        def __setattr__(s, k, v):
            coop.point(f"model.setattr:{k}")
            object.__setattr__(s, k, v)

    Instrumented.__name__ = base.__name__
    Instrumented.__qualname__ = base.__qualname__
    try:
        model.__class__ = Instrumented
    except TypeError:
        pass
    return getattr(cache, dname) if cache is not None else None


# ------------------------------------------------------------------------------------------------------------------
# Single-preemption schedules with interpreter-level schedule points
# ------------------------------------------------------------------------------------------------------------------
def clear_lru_caches(prefix="acryo"):
    """cache_clear() on every functools.lru_cache found as a module attribute of the package (cold start)."""
    import sys

    n = 0
    for name, mod in list(sys.modules.items()):
        if mod is None or not (name == prefix or name.startswith(prefix + ".")):
            continue
        for v in list(vars(mod).values()):
            cc = getattr(v, "cache_clear", None)
            if callable(cc) and hasattr(v, "cache_info"):
                try:
                    cc()
                    n += 1
                except Exception:  # noqa: BLE001
                    pass
    return n


class PreemptOnce:
    """Run fn_a in a real thread under sys.settrace; every 'call' / 'return' (and optionally 'line') event of a frame whose
    code lives under `pkgdir` is a schedule point (CPython may hand the GIL over between any two bytecodes, so each of
    these points is a place where a threaded dask scheduler can preempt the task). At the `target`-th point thread A parks,
    fn_b runs to completion in a second real thread (or until it blocks on something A holds: then A is resumed and both
    finish), then A continues to the end. target=None: A is never parked (used to count the points)."""

    def __init__(self, pkgdir, events=("call", "return"), block_timeout=5.0):
        self.pkgdir = pkgdir
        self.events = frozenset(events)
        self.block_timeout = block_timeout

    def run(self, fn_a, fn_b, target):
        import sys

        st = {"count": 0, "where": None, "b_blocked": False}
        parked, resume = threading.Event(), threading.Event()
        res = {}
        events, pkgdir = self.events, self.pkgdir

        def hit(frame, event):
            st["count"] += 1
            if target is not None and st["count"] == target:
                co = frame.f_code
                st["where"] = f"{co.co_filename[len(pkgdir):].lstrip('/')}:{co.co_name}:{frame.f_lineno}:{event}"
                parked.set()
                resume.wait(900.0)

        def local(frame, event, arg):
            if event in events:
                hit(frame, event)
            return local

        def glob(frame, event, arg):
            if frame.f_code.co_filename.startswith(pkgdir):
                if "call" in events:
                    hit(frame, "call")
                return local
            return None

        def go_a():
            sys.settrace(glob)
            try:
                res["a"] = ("ok", fn_a())
            except BaseException as e:  # noqa: BLE001
                res["a"] = ("err", e)
            finally:
                sys.settrace(None)
                parked.set()

        def go_b():
            try:
                res["b"] = ("ok", fn_b())
            except BaseException as e:  # noqa: BLE001
                res["b"] = ("err", e)

        ta = threading.Thread(target=go_a, name="preempt-a", daemon=True)
        tb = threading.Thread(target=go_b, name="preempt-b", daemon=True)
        ta.start()
        if not parked.wait(600.0):
            raise RuntimeError("preemption harness: task A neither parked nor finished")
        tb.start()
        tb.join(self.block_timeout)
        if tb.is_alive():
            st["b_blocked"] = True  # B waits for something A holds: a legal schedule continues with A
        resume.set()
        ta.join(600.0)
        tb.join(600.0)
        if ta.is_alive() or tb.is_alive():
            raise RuntimeError("preemption harness: dead-lock")
        return res["a"], res["b"], st


class Alternating:
    """Generalisation of PreemptOnce to several hand-overs: both tasks run in real threads under sys.settrace; `segments`
    is a list of point budgets given alternately to A, B, A, B, ... (0 = run to completion). A thread passes that many
    schedule points and parks; when the list is exhausted (or a thread has finished) the remaining threads run to
    completion, A first. A thread that neither parks nor finishes within `block_timeout` is waiting for something the
    other thread holds: the other thread is then run to completion first (a legal continuation)."""

    def __init__(self, pkgdir, events=("call", "return"), block_timeout=5.0):
        self.pkgdir = pkgdir
        self.events = frozenset(events)
        self.block_timeout = block_timeout

    def run(self, fn_a, fn_b, segments):
        import sys

        cv = threading.Condition()
        T = {n: {"budget": 0, "status": "parked", "where": None, "passed": 0} for n in "ab"}
        res = {}
        events, pkgdir = self.events, self.pkgdir
        trace = []

        def make(name, fn):
            me = T[name]

            def hit(frame, event):
                me["passed"] += 1
                if me["budget"] > 0:
                    me["budget"] -= 1
                    if me["budget"] == 0:
                        co = frame.f_code
                        me["where"] = f"{co.co_filename[len(pkgdir):].lstrip('/')}:{co.co_name}:{frame.f_lineno}:{event}"
                        with cv:
                            me["status"] = "parked"
                            cv.notify_all()
                            cv.wait_for(lambda: me["status"] == "running", timeout=300.0)

            def local(frame, event, arg):
                if event in events:
                    hit(frame, event)
                return local

            def glob(frame, event, arg):
                if frame.f_code.co_filename.startswith(pkgdir):
                    if "call" in events:
                        hit(frame, "call")
                    return local
                return None

            def go():
                with cv:
                    cv.wait_for(lambda: me["status"] == "running", timeout=300.0)
                sys.settrace(glob)
                try:
                    res[name] = ("ok", fn())
                except BaseException as e:  # noqa: BLE001
                    res[name] = ("err", e)
                finally:
                    sys.settrace(None)
                    with cv:
                        me["status"] = "done"
                        cv.notify_all()

            return threading.Thread(target=go, name=f"alt-{name}", daemon=True)

        ths = {"a": make("a", fn_a), "b": make("b", fn_b)}
        for t in ths.values():
            t.start()

        def give(name, budget):
            """let `name` run for `budget` points (0 = to completion); returns False if it blocked."""
            me = T[name]
            if me["status"] == "done":
                return True
            with cv:
                me["budget"] = budget if budget > 0 else -1
                me["status"] = "running"
                cv.notify_all()
                ok = cv.wait_for(lambda: me["status"] in ("parked", "done"), timeout=self.block_timeout if budget == 0 or True else None)
            trace.append((name, budget, me["status"], me["where"]))
            return ok

        blocked = False
        for k, seg in enumerate(segments):
            name = "ab"[k % 2]
            if not give(name, int(seg)):
                other = "ba"[k % 2]
                blocked = True
                if not give(other, 0):
                    raise RuntimeError("alternating harness: both threads blocked")
                with cv:
                    cv.wait_for(lambda: T[name]["status"] in ("parked", "done"), timeout=120.0)
        for name in "ab":
            if T[name]["status"] != "done":
                if T[name]["status"] == "running":  # still running after a block: wait for it
                    with cv:
                        cv.wait_for(lambda: T[name]["status"] in ("parked", "done"), timeout=120.0)
                if T[name]["status"] != "done" and not give(name, 0):
                    other = "b" if name == "a" else "a"
                    blocked = True
                    give(other, 0)
                    with cv:
                        cv.wait_for(lambda: T[name]["status"] == "done", timeout=120.0)
        for t in ths.values():
            t.join(120.0)
        if any(t.is_alive() for t in ths.values()):
            raise RuntimeError("alternating harness: dead-lock")
        return res["a"], res["b"], {"trace": trace, "blocked": blocked, "passed": {n: T[n]["passed"] for n in "ab"}}
