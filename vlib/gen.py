"""Shared Hypothesis strategies. Every strategy yields JSON-serialisable values.

Bulk voxel texture is expanded from a *drawn* integer seed (numpy Philox); everything
structural is drawn by Hypothesis so that shrinking and replay work.
"""
from __future__ import annotations

import itertools
import math

import numpy as np
from hypothesis import strategies as st
from scipy.spatial.transform import Rotation

# ---------------------------------------------------------------- textures


def noise(seed: int, shape, dtype=np.float32):
    rng = np.random.Generator(np.random.Philox(int(seed)))
    return rng.standard_normal(tuple(shape)).astype(dtype)


def smooth_noise(seed: int, shape, sigma=1.0, dtype=np.float32):
    from scipy import ndimage as ndi

    a = noise(seed, shape, np.float64)
    a = ndi.gaussian_filter(a, sigma, mode="wrap")
    a /= a.std() + 1e-12
    return a.astype(dtype)


seeds = st.integers(0, 2**31 - 1)

# ---------------------------------------------------------------- rotations

_CUBE = None


def cube_rotations():
    """The 24 axis-aligned rotations as rotation vectors."""
    global _CUBE
    if _CUBE is None:
        mats = []
        for perm in itertools.permutations(range(3)):
            for signs in itertools.product([1, -1], repeat=3):
                m = np.zeros((3, 3))
                for i, (p, s) in enumerate(zip(perm, signs)):
                    m[i, p] = s
                if np.linalg.det(m) > 0:
                    mats.append(m)
        _CUBE = [Rotation.from_matrix(m).as_rotvec().tolist() for m in mats]
    return _CUBE


@st.composite
def unit_vectors(draw):
    # constructive: draw z in [-1,1] and azimuth
    z = draw(st.floats(-1, 1, allow_nan=False))
    phi = draw(st.floats(0, 2 * math.pi, allow_nan=False))
    r = math.sqrt(max(0.0, 1 - z * z))
    return [z, r * math.sin(phi), r * math.cos(phi)]


@st.composite
def rotvecs(draw, classes=("identity", "cube", "pi", "tiny", "nearpi", "generic")):
    """Returns {"cls": name, "rv": [z, y, x] rotation vector} (vectors are zyx-ordered
    exactly as acryo applies scipy Rotations to zyx vectors)."""
    cls = draw(st.sampled_from(list(classes)))
    if cls == "identity":
        rv = [0.0, 0.0, 0.0]
    elif cls == "cube":
        rv = draw(st.sampled_from(cube_rotations()))
    else:
        ax = np.array(draw(unit_vectors()))
        n = np.linalg.norm(ax)
        ax = ax / n if n > 1e-6 else np.array([1.0, 0.0, 0.0])
        if cls == "pi":
            ang = math.pi
        elif cls == "tiny":
            ang = 10 ** draw(st.floats(-7, -2))
        elif cls == "nearpi":
            ang = math.pi - 10 ** draw(st.floats(-6, -2))
        else:
            ang = draw(st.floats(0.05, math.pi - 0.05))
        rv = (ax * ang).tolist()
    return {"cls": cls, "rv": [float(v) for v in rv]}


def rot(rv) -> Rotation:
    if isinstance(rv, dict):
        rv = rv["rv"]
    return Rotation.from_rotvec(np.asarray(rv, dtype=np.float64))


# ---------------------------------------------------------------- shapes


@st.composite
def box_shapes(draw, lo=1, hi=12, classes=("odd", "even", "mixed", "cubic")):
    cls = draw(st.sampled_from(list(classes)))
    if cls == "cubic":
        n = draw(st.integers(lo, hi))
        return [n, n, n]
    if cls == "odd":
        pool = [n for n in range(lo, hi + 1) if n % 2 == 1]
    elif cls == "even":
        pool = [n for n in range(lo, hi + 1) if n % 2 == 0]
    else:
        pool = list(range(lo, hi + 1))
    if not pool:
        pool = list(range(lo, hi + 1))
    return [draw(st.sampled_from(pool)) for _ in range(3)]


def parity_class(shape):
    odd = [s % 2 for s in shape]
    p = "odd" if all(odd) else "even" if not any(odd) else "mixed"
    c = "cubic" if len(set(shape)) == 1 else "noncubic"
    return [f"parity:{p}", f"shape:{c}"]


@st.composite
def chunkings(draw, shape, min_chunk=1):
    """per-axis integer partitions of the shape: list of lists."""
    out = []
    for n in shape:
        mode = draw(st.sampled_from(["single", "halves", "small", "random"]))
        if mode == "single" or n <= min_chunk:
            out.append([n])
            continue
        if mode == "halves":
            a = n // 2
            out.append([a, n - a])
            continue
        if mode == "small":
            c = draw(st.integers(min_chunk, max(min_chunk, 3)))
        else:
            c = None
        parts = []
        left = n
        while left > 0:
            k = c if c is not None else draw(st.integers(min_chunk, max(min_chunk, n)))
            k = min(k, left)
            if 0 < left - k < min_chunk:
                k = left
            parts.append(k)
            left -= k
        out.append(parts)
    return out


scales = st.one_of(
    st.sampled_from([1.0, 0.5, 2.0]),
    st.sampled_from([0.2634, 1.37, 0.731, 3.3]),
    st.floats(0.2, 5.0, allow_nan=False).map(lambda v: round(v, 4)),
)


# ---------------------------------------------------------------- blob templates


@st.composite
def blob_params(draw, shape, nblob=(3, 5), sigma=(1.2, 2.0), margin=None):
    """Asymmetric set of isotropic Gaussians inside `shape` (zyx).

    centres are kept >= 2.5 sigma + 1 from the faces; one dominant off-centre blob plus
    satellites with distinct amplitudes on non-equivalent directions.
    Returns list of dicts {"c": [z,y,x], "s": sigma, "a": amplitude}.
    """
    shape = list(shape)
    k = draw(st.integers(*nblob))
    blobs = []
    amps = [1.0, 0.8, 0.65, 0.5, 0.4, 0.3]
    for i in range(k):
        s = draw(st.floats(sigma[0], sigma[1]).map(lambda v: round(v, 3)))
        m = (2.5 * s + 1.0) if margin is None else margin
        c = []
        for n in shape:
            lo, hi = m, n - 1 - m
            if hi <= lo:
                lo = hi = (n - 1) / 2
            c.append(round(draw(st.floats(lo, hi)), 3))
        blobs.append({"c": c, "s": s, "a": amps[i]})
    return blobs


def render_blobs(blobs, shape, center_shift=(0, 0, 0), rot_about=None, R=None, dtype=np.float32):
    """Analytic density of isotropic Gaussians.

    Each blob centre c is mapped to  rot_about + R (c - rot_about) + center_shift
    (isotropic Gaussians are rotation invariant, so this is the exact rigid motion).
    """
    shape = tuple(shape)
    zz, yy, xx = np.meshgrid(*[np.arange(n, dtype=np.float64) for n in shape], indexing="ij")
    out = np.zeros(shape, dtype=np.float64)
    for b in blobs:
        c = np.asarray(b["c"], dtype=np.float64)
        if R is not None:
            ra = np.asarray(rot_about, dtype=np.float64)
            c = ra + R.apply(c - ra)
        c = c + np.asarray(center_shift, dtype=np.float64)
        out += b["a"] * np.exp(-((zz - c[0]) ** 2 + (yy - c[1]) ** 2 + (xx - c[2]) ** 2) / (2 * b["s"] ** 2))
    return out.astype(dtype)


def broadband(seed, shape, sigma=0.8, window=0.38):
    """Broadband, windowed texture (float64) with its exact Fourier displacement."""
    from scipy import ndimage as ndi

    a = noise(seed, shape, np.float64)
    a = ndi.gaussian_filter(a, sigma, mode="wrap")
    grids = np.meshgrid(*[(np.arange(n) - (n - 1) / 2) / n for n in shape], indexing="ij")
    r2 = sum((g / window) ** 2 for g in grids)
    w = np.exp(-(r2 ** 2))
    a = a * w
    a /= np.abs(a).max() + 1e-12
    return a


def fourier_shift(img, d):
    """Exact (periodic) displacement of img by d (zyx, pixels)."""
    f = np.fft.fftn(img)
    for ax, (n, di) in enumerate(zip(img.shape, d)):
        k = np.fft.fftfreq(n)
        if n % 2 == 0:
            k = k.copy()
            # keep the result real: Nyquist bin gets the real part of the ramp
        ph = np.exp(-2j * np.pi * k * di)
        if n % 2 == 0:
            ph[n // 2] = np.cos(np.pi * di)
        sh = [1] * img.ndim
        sh[ax] = n
        f = f * ph.reshape(sh)
    return np.fft.ifftn(f).real
