"""Reference oracles (float64 numpy), written from the property statements."""
from __future__ import annotations

import numpy as np
from scipy import ndimage as ndi
from scipy.spatial.transform import Rotation

# ------------------------------------------------------------------ C08 wedge (rule W)


def fft_index_grid(shape):
    """(..., 3) array of FFT-ordered integer indices k and physical frequencies f=k/N."""
    ks = [np.round(np.fft.fftfreq(n) * n) for n in shape]
    k = np.stack(np.meshgrid(*ks, indexing="ij"), axis=-1)
    f = k / np.asarray(shape, dtype=np.float64)
    return k, f


def wedge_normal(angle_deg, axis):
    a = np.deg2rad(angle_deg)
    if axis == "y":
        return np.array([-np.cos(a), 0.0, np.sin(a)])
    if axis == "x":
        return np.array([-np.cos(a), np.sin(a), 0.0])
    raise ValueError(axis)


def wedge_reference(R: Rotation, tilt, shape, axis="y", margin=1e-5):
    """Returns (kept bool array, tie bool array). tie = within margin of a plane."""
    _, f = fft_index_grid(shape)
    F = R.apply(f.reshape(-1, 3)).reshape(f.shape)
    d0 = F @ wedge_normal(tilt[0], axis)
    d1 = F @ wedge_normal(tilt[1], axis)
    fn = np.sqrt((f ** 2).sum(-1))
    tie = (np.minimum(np.abs(d0), np.abs(d1)) <= margin * np.maximum(fn, 1e-30)) & (fn > 0)
    kept = d0 * d1 <= 0
    return kept, tie


def negate_index(shape):
    """index arrays mapping bin k -> bin -k, and a mask of bins whose negative exists."""
    idx = []
    ok = []
    for n in shape:
        k = np.round(np.fft.fftfreq(n) * n).astype(int)
        has = np.ones(n, dtype=bool)
        if n % 2 == 0:
            has[n // 2] = False  # Nyquist: -(-n/2) = +n/2 is not on the grid
        idx.append((-k) % n)
        ok.append(has)
    I = np.meshgrid(*idx, indexing="ij")
    O = np.meshgrid(*ok, indexing="ij")
    return tuple(I), O[0] & O[1] & O[2]


# ------------------------------------------------------------------ sampling rule S


def sample_coords(pos_px, R: Rotation, shape):
    """pixel coordinates X[k] = pos + R (k - (shape-1)/2), shape (3, *shape)."""
    shape = tuple(shape)
    c = (np.asarray(shape, dtype=np.float64) - 1) / 2
    k = np.stack(np.meshgrid(*[np.arange(n, dtype=np.float64) for n in shape], indexing="ij"), axis=-1)
    X = np.asarray(pos_px, dtype=np.float64) + R.apply((k - c).reshape(-1, 3)).reshape(k.shape)
    return np.moveaxis(X, -1, 0)


def sample_reference(tomo, pos_px, R, shape, order):
    X = sample_coords(pos_px, R, shape)
    return ndi.map_coordinates(np.asarray(tomo, dtype=np.float64), X, order=order,
                               mode="constant", cval=np.nan, prefilter=order > 1), X


# ------------------------------------------------------------------ FSC (rule F)


def fsc_reference(a, b, dfreq):
    a = np.asarray(a, dtype=np.float64)
    b = np.asarray(b, dtype=np.float64)
    fr = np.meshgrid(*[np.fft.fftfreq(n) for n in a.shape], indexing="ij")
    r = np.sqrt(sum(g ** 2 for g in fr))
    lab = np.floor(r / dfreq).astype(int)
    n = int(lab.max())
    A = np.fft.fftn(a)
    B = np.fft.fftn(b)
    out = np.full(n, np.nan)
    cnt = np.zeros(n, dtype=int)
    for i in range(n):
        m = lab == i
        cnt[i] = int(m.sum())
        if cnt[i] == 0:
            continue
        num = (A[m] * np.conj(B[m])).real.sum()
        den = np.sqrt((np.abs(A[m]) ** 2).sum() * (np.abs(B[m]) ** 2).sum())
        out[i] = num / den if den > 0 else np.nan
    freq = (np.arange(n) + 0.5) * dfreq
    return freq, out, cnt, (r / dfreq)


# ------------------------------------------------------------------ scores


def butterworth(shape, cutoff, order=2):
    if cutoff is None or cutoff <= 0 or cutoff >= 0.5 * np.sqrt(3):
        return np.ones(shape)
    f2 = sum(g ** 2 for g in np.meshgrid(*[np.fft.fftfreq(n) for n in shape], indexing="ij"))
    with np.errstate(over="ignore"):
        return 1.0 / (1.0 + (f2 / cutoff ** 2) ** order)


def pearson(a, b):
    a = np.asarray(a, dtype=np.float64).ravel()
    b = np.asarray(b, dtype=np.float64).ravel()
    a = a - a.mean()
    b = b - b.mean()
    return float((a * b).sum() / np.sqrt((a * a).sum() * (b * b).sum()))


def cosine(a, b):
    a = np.asarray(a, dtype=np.float64).ravel()
    b = np.asarray(b, dtype=np.float64).ravel()
    return float((a * b).sum() / np.sqrt((a * a).sum() * (b * b).sum()))


def angle_between(Ra: Rotation, Rb: Rotation) -> float:
    return float((Ra.inv() * Rb).magnitude())
