"""Runner for the property checks: tiers, seeds, sharding, evidence, replay, exit codes.

usage: ./check <ID> [--tier quick|thorough] [--replay FILE] [--engine NAME] [--cases N]
exit:  0 held on everything explored / 1 violation not listed in known_findings.txt /
       2 harness error (never reported as a VIOLATION)
"""
from __future__ import annotations

import argparse
import hashlib
import importlib
import json
import os
import sys
import time
import traceback
from collections import Counter
from pathlib import Path

VERIF = Path(__file__).resolve().parent.parent
REPO = Path(os.environ.get("VERIF_REPO", "/repo")).resolve()
ACRYO_DIR = str(REPO / "acryo")


def _setup_path():
    for p in (str(VERIF), str(REPO)):
        if p in sys.path:
            sys.path.remove(p)
    sys.path.insert(0, str(VERIF))
    sys.path.insert(0, str(REPO))


_setup_path()

MODULES = {
    "C01": "checks.c01_pose",
    "C02": "checks.c02_sampling",
    "C03": "checks.c03_rows",
    "C04": "checks.c04_shift",
    "C05": "checks.c05_bounds",
    "C06": "checks.c06_search",
    "C07": "checks.c07_scores",
    "C08": "checks.c08_wedge",
    "C09": "checks.c09_average",
    "C10": "checks.c10_schedule",
    "C11": "checks.c11_algebra",
    "C12": "checks.c12_table",
    "C13": "checks.c13_io",
    "C14": "checks.c14_simulate",
    "C15": "checks.c15_binning",
    "C16": "checks.c16_lowpass",
    "C17": "checks.c17_fsc",
    "C18": "checks.c18_pca",
    "C19": "checks.c19_pipe",
    "C20": "checks.c20_pick",
}


# the thorough tier of cheap checks is deepened to roughly five minutes on 16 cores (factor on every engine's thorough case count)
THOROUGH_SCALE = {"C03": 3, "C04": 8, "C05": 4, "C06": 2, "C07": 4, "C08": 3, "C09": 2, "C11": 2, "C12": 4, "C13": 5, "C14": 10,
                  "C16": 10, "C17": 8, "C18": 2, "C19": 2}


class HarnessError(Exception):
    pass


class ViolationFound(Exception):
    pass


class Engine:
    """One generated search: a strategy of JSON descriptors + a judge.

    judge(desc) -> list of violation dicts {"sig": str, "msg": str, ...}
    cases: {"quick": n, "thorough": n}; shards: {"quick": k, "thorough": k}
    enumerate(tier) -> iterable of descriptors (finite sub-space, run completely)
    """

    def __init__(self, name, judge, strategy=None, enumerate=None, nontrivial=None,
                 labels=None, cases=None, shards=None, shrink=None, note=""):
        self.name = name
        self.judge = judge
        self.strategy = strategy
        self.enumerate = enumerate
        self.nontrivial = nontrivial or (lambda d: True)
        self.labels = labels or (lambda d: [])
        self.cases = cases or {"quick": 100, "thorough": 2000}
        self.shards = shards or {"quick": 1, "thorough": 16}
        self.shrink = shrink or {"quick": True, "thorough": True}
        self.note = note


def viol(sig, msg, **measured):
    d = {"sig": sig, "msg": msg}
    d.update(measured)
    return d


# ------------------------------------------------------------------ known findings


def load_findings():
    known, fixed = {}, []
    f = VERIF / "known_findings.txt"
    if f.exists():
        for line in f.read_text().splitlines():
            line = line.strip()
            if line.startswith("known:"):
                rest = line[len("known:"):].strip()
                parts = rest.split(None, 2)
                kv = dict(p.split("=", 1) for p in parts[:2])
                known[kv["sig"]] = {"property": kv["property"],
                                    "what": parts[2] if len(parts) > 2 else ""}
            elif line.startswith("fixed:"):
                fixed.append(line)
    return known, fixed


# ------------------------------------------------------------------ judging


def _touches_acryo(tb) -> str | None:
    """innermost acryo frame of a traceback as 'file:func', or None."""
    hit = None
    for fs in traceback.extract_tb(tb):
        fn = os.path.abspath(fs.filename)
        if fn.startswith(ACRYO_DIR + os.sep):
            hit = f"{os.path.relpath(fn, str(REPO))}:{fs.name}"
    return hit


def judge_safely(engine, desc):
    try:
        out = engine.judge(desc)
        return list(out or [])
    except HarnessError:
        raise
    except Exception as e:  # noqa: BLE001
        where = _touches_acryo(e.__traceback__)
        if where is None:
            raise HarnessError(
                f"engine {engine.name}: exception outside acryo\n"
                + "".join(traceback.format_exception(e))
                + "\ndescriptor: " + json.dumps(desc, default=str)[:2000]
            ) from e
        tb = "".join(traceback.format_exception(e))[-1500:]
        return [viol(f"exception:{type(e).__name__}@{where}",
                     f"unexpected {type(e).__name__}: {e}", traceback=tb)]


def dhash(desc) -> str:
    return hashlib.sha1(json.dumps(desc, sort_keys=True, default=str).encode()).hexdigest()[:16]


def mix(seed: int, *parts) -> int:
    h = hashlib.sha256(("/".join(map(str, (seed,) + parts))).encode()).digest()
    return int.from_bytes(h[:8], "big") % (2**63)


class Stats:
    def __init__(self):
        self.evaluations = 0
        self.nontrivial = set()
        self.classes = Counter()
        self.known_hits = Counter()
        self.samples = []
        self.failures = []  # list of {"desc", "violations"}
        self.last_fail = None
        self.extra = Counter()
        self.survey_examples = {}

    def record(self, engine, desc, viols, known):
        self.evaluations += 1
        nt = bool(engine.nontrivial(desc))
        if nt:
            self.nontrivial.add(dhash(desc))
            if len(self.samples) < 3:
                self.samples.append(desc)
            elif self.evaluations in (15, 40, 120):
                # Hypothesis starts with minimal examples: replace them by later, more typical non-trivial cases
                self.samples[(self.evaluations // 15) % 3] = desc
        elif not self.samples:
            self.samples.append(desc)
        for lab in engine.labels(desc):
            self.classes[lab] += 1
        unknown = []
        for v in viols:
            if v["sig"] in known:
                self.known_hits[v["sig"]] += 1
            else:
                unknown.append(v)
        return unknown

    def dump(self):
        return {
            "evaluations": self.evaluations,
            "nontrivial": sorted(self.nontrivial),
            "classes": dict(self.classes),
            "known_hits": dict(self.known_hits),
            "samples": self.samples,
            "failures": self.failures,
            "extra": dict(self.extra),
            "survey_examples": self.survey_examples,
        }


def run_unit(unit):
    """Executed in a worker process. unit = dict(prop, engine, tier, seed, shard, nshards, n)."""
    _setup_path()
    t0 = time.time()
    try:
        mod = importlib.import_module(MODULES[unit["prop"]])
        engine = {e.name: e for e in mod.engines()}[unit["engine"]]
        known, _ = load_findings()
        stats = Stats()
        if engine.enumerate is not None and unit.get("enumerated"):
            _run_enumerated(engine, unit, stats, known)
        else:
            _run_hypothesis(engine, unit, stats, known)
        out = stats.dump()
        out["engine"] = engine.name
        out["wall_s"] = time.time() - t0
        out["harness_error"] = None
        return out
    except HarnessError as e:
        return {"engine": unit["engine"], "harness_error": str(e), "wall_s": time.time() - t0}
    except Exception as e:  # noqa: BLE001
        return {"engine": unit["engine"],
                "harness_error": "".join(traceback.format_exception(e)),
                "wall_s": time.time() - t0}


def _run_enumerated(engine, unit, stats, known):
    seen_sigs = set()
    for i, desc in enumerate(engine.enumerate(unit["tier"])):
        if i % unit["nshards"] != unit["shard"]:
            continue
        viols = judge_safely(engine, desc)
        unknown = stats.record(engine, desc, viols, known)
        for v in unknown:
            if v["sig"] not in seen_sigs:
                seen_sigs.add(v["sig"])
                stats.failures.append({"desc": desc, "violations": [v]})
    stats.extra["enumerated"] = stats.evaluations


def _run_hypothesis(engine, unit, stats, known):
    import hypothesis
    from hypothesis import HealthCheck, Phase, given, settings

    phases = [Phase.generate]
    if engine.shrink.get(unit["tier"], True):
        phases.append(Phase.shrink)
    n = max(1, int(unit["n"]))

    @hypothesis.seed(mix(unit["seed"], unit["prop"], engine.name, unit["shard"]))
    @settings(max_examples=n, database=None, deadline=None, derandomize=False,
              report_multiple_bugs=False, phases=phases,
              suppress_health_check=list(HealthCheck), print_blob=False)
    @given(engine.strategy)
    def test(desc):
        viols = judge_safely(engine, desc)
        unknown = stats.record(engine, desc, viols, known)
        if unknown and unit.get("survey"):
            for v in unknown:
                stats.extra["survey:" + v["sig"]] += 1
                if v["sig"] not in stats.survey_examples:
                    stats.survey_examples[v["sig"]] = v["msg"]
            return
        if unknown:
            stats.last_fail = {"desc": desc, "violations": unknown}
            raise ViolationFound(unknown[0]["sig"])

    try:
        test()
    except ViolationFound:
        stats.failures.append(stats.last_fail)
    except HarnessError:
        raise
    except BaseException as e:  # noqa: BLE001
        # hypothesis-level problems (Flaky etc.)
        name = type(e).__name__
        if stats.last_fail is not None and ("Flaky" in name or "ExceptionGroup" in name):
            lf = dict(stats.last_fail)
            lf["flaky"] = True
            stats.failures.append(lf)
        else:
            raise HarnessError("".join(traceback.format_exception(e)))


# ------------------------------------------------------------------ main


def _jsonable(o):
    try:
        import numpy as np
        if isinstance(o, (np.integer,)):
            return int(o)
        if isinstance(o, (np.floating,)):
            return float(o)
        if isinstance(o, np.ndarray):
            return o.tolist()
    except Exception:  # noqa: BLE001
        pass
    return str(o)


def write_replay(prop, engine_name, failure):
    d = VERIF / "replays"
    d.mkdir(exist_ok=True)
    body = {"property": prop, "engine": engine_name, "descriptor": failure["desc"],
            "violations": failure["violations"], "flaky": failure.get("flaky", False)}
    h = dhash([engine_name, failure["desc"]])
    p = d / f"{prop}-{h}.json"
    p.write_text(json.dumps(body, indent=1, default=_jsonable))
    return p


def replay(prop, path):
    body = json.loads(Path(path).read_text())
    mod = importlib.import_module(MODULES[prop])
    engine = {e.name: e for e in mod.engines()}[body["engine"]]
    known, _ = load_findings()
    viols = judge_safely(engine, body["descriptor"])
    bad = [v for v in viols if v["sig"] not in known]
    for v in viols:
        tag = "known" if v["sig"] in known else "VIOLATED"
        print(f"  [{tag}] {v['sig']}: {v['msg']}")
    if bad:
        print(f"VIOLATION property={prop} replay={path}")
        return 1
    print(f"replay {path}: no violation")
    return 0


def main(argv=None):
    ap = argparse.ArgumentParser()
    ap.add_argument("prop")
    ap.add_argument("--tier", default=os.environ.get("VERIF_TIER", "quick"),
                    choices=["quick", "thorough"])
    ap.add_argument("--replay")
    ap.add_argument("--engine", action="append")
    ap.add_argument("--cases", type=float, help="scale factor on case counts")
    ap.add_argument("--procs", type=int, default=int(os.environ.get("VERIF_PROCS", "16")))
    ap.add_argument("--no-regress", action="store_true")
    ap.add_argument("--no-evidence", action="store_true")
    ap.add_argument("--survey", action="store_true", help="development: count violation signatures, never stop/shrink")
    args = ap.parse_args(argv)
    prop = args.prop.upper()
    try:
        seed = int(os.environ.get("VERIF_SEED", "0"))
    except ValueError:
        seed = 0
    if prop not in MODULES:
        print(f"unknown property {prop}", file=sys.stderr)
        return 2
    try:
        if args.replay:
            return replay(prop, args.replay)
        return run_check(prop, args.tier, seed, args)
    except HarnessError as e:
        print("HARNESS ERROR\n" + str(e), file=sys.stderr)
        return 2
    except Exception:  # noqa: BLE001
        print("HARNESS ERROR\n" + traceback.format_exc(), file=sys.stderr)
        return 2


def run_check(prop, tier, seed, args):
    import multiprocessing as mp

    t0 = time.time()
    mod = importlib.import_module(MODULES[prop])
    engines = mod.engines()
    if args.engine:
        engines = [e for e in engines if e.name in args.engine]
    known, fixed = load_findings()
    known_here = {s: k for s, k in known.items() if k["property"] == prop}

    # regression tier: committed replay inputs
    regress_viol = []
    n_regress = 0
    rdir = VERIF / "regress" / prop
    if rdir.is_dir() and not args.no_regress:
        by_name = {e.name: e for e in mod.engines()}
        for p in sorted(rdir.glob("*.json")):
            body = json.loads(p.read_text())
            eng = by_name.get(body["engine"])
            if eng is None:
                raise HarnessError(f"regress file {p} names unknown engine {body['engine']}")
            viols = judge_safely(eng, body["descriptor"])
            n_regress += 1
            bad = [v for v in viols if v["sig"] not in known]
            if bad:
                regress_viol.append((p, bad))

    units = []
    for e in engines:
        scale = args.cases or (THOROUGH_SCALE.get(prop, 1.0) if tier == "thorough" else 1.0)
        if e.strategy is not None and e.cases.get(tier, 100) > 0:
            k = max(1, int(e.shards.get(tier, 1)))
            n = max(1, int(e.cases.get(tier, 100) * scale))
            k = min(k, n)
            for s in range(k):
                units.append(dict(prop=prop, engine=e.name, tier=tier, seed=seed, shard=s,
                                  nshards=k, n=(n + k - 1) // k, survey=args.survey))
        if e.enumerate is not None:
            k = max(1, int(e.shards.get(tier, 1)))
            for s in range(k):
                units.append(dict(prop=prop, engine=e.name, tier=tier, seed=seed, shard=s,
                                  nshards=k, n=0, enumerated=True))

    nproc = max(1, min(args.procs, len(units)))
    if nproc == 1:
        results = [run_unit(u) for u in units]
    else:
        ctx = mp.get_context("spawn")
        with ctx.Pool(nproc, maxtasksperchild=1) as pool:
            results = pool.map(run_unit, units, chunksize=1)

    errs = [r for r in results if r.get("harness_error")]
    if errs:
        raise HarnessError("\n\n".join(f"[{r['engine']}] {r['harness_error']}" for r in errs))

    # merge
    per_engine = {}
    all_nt = set()
    total_eval = 0
    classes = Counter()
    known_hits = Counter()
    samples = []
    failures = []
    for u, r in zip(units, results):
        pe = per_engine.setdefault(r["engine"], {"evaluations": 0, "nontrivial": set(),
                                                 "exhaustive": False, "wall_s": 0.0})
        pe["evaluations"] += r["evaluations"]
        pe["nontrivial"].update(r["nontrivial"])
        pe["wall_s"] = max(pe["wall_s"], r["wall_s"])
        if u.get("enumerated"):
            pe["exhaustive"] = True
        total_eval += r["evaluations"]
        all_nt.update(f"{r['engine']}:{h}" for h in r["nontrivial"])
        classes.update({f"{r['engine']}/{k}": v for k, v in r["classes"].items()})
        known_hits.update(r["known_hits"])
        for s in r["samples"]:
            if sum(1 for x in samples if x["engine"] == r["engine"]) < 2:
                samples.append({"engine": r["engine"], "descriptor": s})
        for f in r["failures"]:
            failures.append((r["engine"], f))

    if args.survey:
        tot = Counter()
        ex = {}
        for r in results:
            tot.update({k: v for k, v in r.get("extra", {}).items() if k.startswith("survey:")})
            for k, v in r.get("survey_examples", {}).items():
                ex.setdefault(k, v)
        print(f"SURVEY over {total_eval} cases:")
        for k, v in tot.most_common():
            print(f"  {v:6d}  {k[7:]}   e.g. {ex.get(k[7:], '')[:230]}")
        return 0
    # report
    seen = set()
    nviol = 0
    lines = []
    for p, bad in regress_viol:
        nviol += 1
        for v in bad:
            print(f"  regress {p.name}: {v['sig']}: {v['msg']}")
        lines.append(f"VIOLATION property={prop} replay={p}")
    for ename, f in failures:
        sig = f["violations"][0]["sig"]
        if sig in seen:
            continue
        seen.add(sig)
        nviol += 1
        p = write_replay(prop, ename, f)
        for v in f["violations"]:
            print(f"  {ename}: {v['sig']}: {v['msg']}")
        lines.append(f"VIOLATION property={prop} replay={p}")
    for sig, k in sorted(known_here.items()):
        print(f"KNOWN-FINDING: property={prop} {sig} {k['what']} (hits this run: {known_hits.get(sig, 0)})")
    for ln in dict.fromkeys(lines):
        print(ln)

    wall = time.time() - t0
    if not args.no_evidence:
        ev = {
            "property_id": prop,
            "tier": tier,
            "seed": seed,
            "level": "exploration",
            "coverage": {
                "evaluations": total_eval,
                "distinct_nontrivial": len(all_nt),
                "rule": getattr(mod, "RULE", ""),
                "samples": samples,
                "exhaustive": False,
                "engines": {k: {"evaluations": v["evaluations"],
                                "distinct_nontrivial": len(v["nontrivial"]),
                                "exhaustive_enumerated_part": v["exhaustive"],
                                "wall_s": round(v["wall_s"], 2)} for k, v in per_engine.items()},
                "classes": dict(sorted(classes.items())),
                "known_hits": dict(known_hits),
                "regress_inputs_replayed": n_regress,
                "tolerances": getattr(mod, "TOLERANCES", {}),
            },
            "assumptions": list(getattr(mod, "ASSUMPTIONS", [])),
            "wall_s": round(wall, 2),
            "violations": nviol,
        }
        (VERIF / "evidence").mkdir(exist_ok=True)
        out = VERIF / "evidence" / f"{prop}.json"
        out.write_text(json.dumps(ev, indent=1, default=_jsonable))
        _validate(ev)
    print(f"{prop} tier={tier} seed={seed}: {total_eval} cases, {len(all_nt)} distinct non-trivial, "
          f"{nviol} violation(s), {sum(known_hits.values())} known-finding hit(s), {wall:.1f}s")
    return 1 if nviol else 0


def _validate(ev):
    try:
        import jsonschema
    except ImportError:
        return
    sp = Path("/root/.vp/EVIDENCE.schema.json")
    if not sp.exists():
        sp = VERIF / "vlib" / "EVIDENCE.schema.json"
    if sp.exists():
        jsonschema.validate(json.loads(json.dumps(ev, default=_jsonable)), json.loads(sp.read_text()))


if __name__ == "__main__":
    sys.exit(main())
