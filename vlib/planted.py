"""Planted-truth construction shared by C01 / C05 / C06 / C10 / C20.

A *particle template* is a set of isotropic Gaussian blobs given relative to the box centre
(offsets u_b, zyx, pixels). Being analytic, the same density can be evaluated exactly at any
rigid pose: the tomogram is the sum of the Gaussians at  p*/scale + R*(u_b).
"""
from __future__ import annotations

import math

import numpy as np
from hypothesis import strategies as st
from scipy.spatial.transform import Rotation

AMPS = [1.0, 0.75, 0.55, 0.4, 0.3]


@st.composite
def blob_offsets(draw, rmax, nblob=(3, 5), sigma=(1.0, 1.3), variant=0, rmin=2.5):
    """Asymmetric blob set inside the ball of radius rmax (centres at radius <= rmax - 2.6 sigma).

    One dominant off-centre blob plus satellites with distinct amplitudes on non-equivalent
    directions; `variant` rotates the amplitude assignment so that several templates drawn for the
    same case differ clearly.
    Returns list of {"u": [z,y,x], "s": sigma, "a": amplitude}.
    """
    k = draw(st.integers(*nblob))
    dirs = [[0.0, 0.0, 1.0], [0.0, 1.0, 0.2], [1.0, -0.3, -0.4], [-0.6, -0.7, 0.5], [0.5, 0.6, -0.8]]
    blobs = []
    for i in range(k):
        s = round(draw(st.floats(sigma[0], sigma[1])), 3)
        rr = max(0.0, rmax - 2.6 * s)
        lo = min(max(rmin, 0.55 * rr), rr)
        r = draw(st.floats(lo, rr)) if rr > 0 else 0.0
        dvec = np.array(dirs[(i + variant) % len(dirs)], dtype=float)
        jit = np.array([draw(st.floats(-0.25, 0.25)) for _ in range(3)])
        dvec = dvec / np.linalg.norm(dvec) + jit
        dvec = dvec / np.linalg.norm(dvec)
        u = (dvec * r).round(3).tolist()
        blobs.append({"u": u, "s": s, "a": AMPS[(i + 2 * variant) % len(AMPS)]})
    return blobs


def render_template(blobs, shape, dtype=np.float32):
    c = (np.asarray(shape, dtype=np.float64) - 1) / 2
    return render_at(blobs, shape, c, Rotation.identity(), dtype)


def render_at(blobs, shape, center_px, R: Rotation, dtype=np.float32, out=None):
    """density of the blob set with its centre at center_px (zyx pixel coordinates of an array of
    `shape`) and orientation R; added into `out` if given."""
    shape = tuple(int(s) for s in shape)
    center_px = np.asarray(center_px, dtype=np.float64)
    acc = np.zeros(shape, dtype=np.float64) if out is None else out
    for b in blobs:
        cb = center_px + R.apply(np.asarray(b["u"], dtype=np.float64))
        rad = 5.0 * b["s"]
        lo = np.maximum(np.floor(cb - rad).astype(int), 0)
        hi = np.minimum(np.ceil(cb + rad).astype(int) + 1, shape)
        if np.any(hi <= lo):
            continue
        z, y, x = [np.arange(lo[a], hi[a], dtype=np.float64) - cb[a] for a in range(3)]
        g = (np.exp(-z ** 2 / (2 * b["s"] ** 2))[:, None, None]
             * np.exp(-y ** 2 / (2 * b["s"] ** 2))[None, :, None]
             * np.exp(-x ** 2 / (2 * b["s"] ** 2))[None, None, :])
        acc[lo[0]:hi[0], lo[1]:hi[1], lo[2]:hi[2]] += b["a"] * g
    return acc if out is not None else acc.astype(dtype)


def render_subvolume(blobs, shape, q: Rotation, shift, dtype=np.float32):
    """template pushed forward by q about the box centre and displaced by shift (the sub-volume an
    alignment result (shift, q) describes)."""
    c = (np.asarray(shape, dtype=np.float64) - 1) / 2
    return render_at(blobs, shape, c + np.asarray(shift, dtype=np.float64), q, dtype)


def rotation_set(draw, kmax=5, min_sep_deg=25.0, max_angle_deg=60.0):
    """Rotation object members: identity + (K-1) rotations, pairwise >= min_sep apart."""
    from vlib import gen
    k = draw(st.integers(1, kmax))
    out = [[0.0, 0.0, 0.0]]
    tries = 0
    while len(out) < k and tries < 40:
        tries += 1
        ax = np.array(draw(gen.unit_vectors()))
        n = np.linalg.norm(ax)
        if n < 1e-6:
            continue
        ang = math.radians(draw(st.floats(min_sep_deg, max_angle_deg)))
        rv = ax / n * ang
        R = Rotation.from_rotvec(rv)
        if all((Rotation.from_rotvec(o).inv() * R).magnitude() >= math.radians(min_sep_deg) for o in out):
            out.append([round(float(v), 5) for v in rv])
    return out


def angle(Ra: Rotation, Rb: Rotation) -> float:
    return float((Ra.inv() * Rb).magnitude())
