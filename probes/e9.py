import numpy as np
from scipy import ndimage as ndi
from acryo import TomogramSimulator, Molecules, SubtomogramLoader
rng = np.random.default_rng(0)
def tm(shape):
    img = np.zeros(shape, np.float32); img[tuple(slice(2,-2) for _ in shape)] = rng.uniform(0.5,1.5,tuple(s-4 for s in shape))
    return img
for shape in [(7,7,7),(8,8,8),(7,8,9)]:
    t = tm(shape)
    for order in (1,3):
        sim = TomogramSimulator(order=order, scale=1.0)
        c = (np.array(shape)-1)/2
        # grid-coincident pose: integer for odd, half-integer for even
        pos = np.array([15,16,17]) + (c % 1)
        sim.add_molecules(Molecules(pos[None]), t)
        tomo = sim.simulate((32,32,32))
        # expected: tomo[pos - c + k] = t[k]
        start = np.round(pos - c).astype(int)
        blk = tomo[tuple(slice(s, s+n) for s,n in zip(start, shape))]
        ldr = SubtomogramLoader(tomo, Molecules(pos[None]), order=order, output_shape=shape)
        sub = ldr.load(0)
        print(shape, "order", order, "paste exact:", np.abs(blk-t).max().round(4), " load==template:", np.abs(sub-t).max().round(4))
# 2d vs projection
t = tm((7,7,7))
sim = TomogramSimulator(order=1)
mols = Molecules([[10,10,10],[12,20,14],[9,14,22]], )
sim.add_molecules(mols, t)
vol = sim.simulate((24,32,32)); p2 = sim.simulate_2d((32,32))
print("2d vs proj maxdiff", np.abs(vol.sum(0)-p2).max(), "sum3d", vol.sum(), "sum2d", p2.sum())
