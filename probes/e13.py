import numpy as np, polars as pl, tempfile, os
from scipy.spatial.transform import Rotation
from acryo import Molecules
from acryo.molecules import axes_to_rotator
# mixed batch
R = Rotation.from_rotvec([[0.3,0.2,-0.5],[0,0,np.pi],[np.pi,0,0],[0,np.pi,0],[0,0,0]])
z = R.apply([1,0,0]); y = R.apply([0,1,0]); x = R.apply([0,0,1])
for nm, kw in [("zy", dict(z=z,y=y)), ("zx", dict(z=z,x=x)), ("yx", dict(y=y,x=x))]:
    m = Molecules.from_axes(np.zeros((5,3)), **kw)
    err = (m.rotator.inv()*R).magnitude()
    print("batch", nm, np.round(err,4))
    errs = []
    for i in range(5):
        mi = Molecules.from_axes(np.zeros((1,3)), **{k:v[i:i+1] for k,v in kw.items()})
        errs.append((mi.rotator.inv()*R[i]).magnitude()[0])
    print("single", nm, np.round(errs,4))
# concat_with
a = Molecules(np.zeros((2,3)))
b = Molecules(np.ones((3,3)), features={"f":[1,2,3]})
for f,(u,v) in {"a.concat_with(b)":(a,b), "b.concat_with(a)":(b,a)}.items():
    try:
        r = u.concat_with(v); print(f, len(r), r.features)
    except Exception as e: print(f, "RAISED", type(e).__name__, e)
try:
    r = Molecules.concat([a,b]); print("concat", len(r), r.features)
except Exception as e: print("concat RAISED", type(e).__name__, e)
# subset variants
m = Molecules(np.arange(15).reshape(5,3), Rotation.random(5, random_state=0), features={"i":[0,1,2,3,4],"s":["a","b",None,"d","e"]})
for spec in [slice(None,None,-1), slice(1,4,2), [3,1], np.array([True,False,True,False,True]), np.array([4,0]), -1]:
    try:
        r = m.subset(spec); print(spec, r.pos[:,0].tolist(), r.features["i"].to_list())
    except Exception as e: print(spec, "RAISED", type(e).__name__, e)
# io
with tempfile.TemporaryDirectory() as d:
    for suf in [".csv",".parquet",".pq",".txt"]:
        p = os.path.join(d,"m"+suf); m.to_file(p); r = Molecules.from_file(p)
        print(suf, np.abs(r.pos-m.pos).max(), (r.rotator.inv()*m.rotator).magnitude().max(), r.features.dtypes, r.to_dataframe().columns)
