import numpy as np, dask.array as da
from scipy import ndimage as ndi
from scipy.spatial.transform import Rotation
from acryo import SubtomogramLoader, Molecules
rng = np.random.default_rng(0)
tomo = ndi.gaussian_filter(rng.normal(size=(40,42,44)),0.8).astype(np.float32)
def ref(tomo, pos, R, shape, order, scale=1.0):
    k = np.stack(np.indices(shape),-1).reshape(-1,3) - (np.array(shape)-1)/2
    X = pos/scale + R.apply(k)
    v = ndi.map_coordinates(tomo, X.T, order=order, mode="constant", cval=np.nan, prefilter=order>1)
    return v.reshape(shape), X.reshape(shape+(3,))
for order in (0,1,3):
    for cs in (False, True):
        worst=0; worst_ball=0
        for t in range(20):
            pos = rng.uniform(14,26,3)*1.3; R = Rotation.random(random_state=t)
            shape = tuple(rng.integers(4,9,3))
            l = SubtomogramLoader(tomo, Molecules(pos[None], Rotation.concatenate([R])), order=order, scale=1.3, output_shape=shape, corner_safe=cs)
            out = l.load(0); r, X = ref(tomo, pos, R, shape, order, 1.3)
            k = np.stack(np.indices(shape),-1) - (np.array(shape)-1)/2
            ball = np.linalg.norm(k,axis=-1) <= (min(shape)/2)
            if order==0:
                # ignore near-tie voxels
                frac = np.abs((X - np.floor(X)) - 0.5).min(-1) > 1e-3
                ball = ball & frac; full = frac
            else: full = np.ones(shape,bool)
            d = np.abs(out-r)
            worst=max(worst, d[full].max()); worst_ball=max(worst_ball, d[ball].max())
        print("order",order,"corner_safe",cs,"max err full box", round(float(worst),5), "in ball", round(float(worst_ball),5), "data range", round(float(np.ptp(tomo)),3))
