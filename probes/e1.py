import numpy as np
from scipy.spatial.transform import Rotation
from acryo.tilt import single_axis, dual_axis
from acryo.tilt._utils import get_indices
from acryo import _utils
from acryo.backend import Backend

print(get_indices((5,4,3))[:,0,0,0], get_indices((5,4,3))[0,:,0,1], get_indices((5,4,3))[0,0,:,2])

def ref_mask(rot, shape, tr, axis="y"):
    # physical frequency f = fftfreq index / N; tomogram-frame vector = R f
    kz,ky,kx = np.meshgrid(*[np.fft.fftfreq(n)*n for n in shape], indexing="ij")
    f = np.stack([kz/shape[0], ky/shape[1], kx/shape[2]], axis=-1)
    F = rot.apply(f.reshape(-1,3)).reshape(f.shape)
    # tilt about y: beam along z. sample tilted by theta: the central slice plane contains y and direction (cos t along x, sin t along z)
    # kept region: between planes => angle of (Fz, Fx) within [min,max] from x-axis (both signs)
    a0,a1 = np.deg2rad(tr)
    if axis=="y":
        u = F[...,2]; w = F[...,0]
    else:
        u = F[...,1]; w = F[...,0]
    # normal to plane at tilt a: n = (-sin a along u, cos a along w) ; sign product <=0 => between
    d0 = -np.sin(a0)*u + np.cos(a0)*w
    d1 = -np.sin(a1)*u + np.cos(a1)*w
    return d0*d1 <= 0

for shape in [(8,8,8),(7,7,7),(8,10,12),(9,7,5)]:
    for rot in [Rotation.identity(), Rotation.from_rotvec([0.3,-0.5,0.9])]:
        m = single_axis((-60,50),"y").create_mask(rot, shape)
        r = ref_mask(rot, shape, (-60,50))
        # symmetric check
        idx = tuple(np.meshgrid(*[(-np.arange(n))%n for n in shape], indexing="ij"))
        sym = np.array_equal(m, m[idx])
        print(shape, rot.magnitude().round(2), "mismatch vs ref:", int((m!=r).sum()), "/", m.size, "symmetric:", sym, "ref symmetric:", np.array_equal(r, r[idx]))
