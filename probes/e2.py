import numpy as np
from scipy import ndimage as ndi
from scipy.spatial.transform import Rotation
from acryo import SubtomogramLoader, Molecules
from acryo.alignment import ZNCCAlignment, PCCAlignment, NCCAlignment

rng = np.random.default_rng(0)
def make_template(n=21):
    img = np.zeros((n,n,n), np.float32)
    zz,yy,xx = np.indices(img.shape)
    c=(n-1)/2
    for _ in range(6):
        p = c + rng.uniform(-4,4,3); s = rng.uniform(1.2,2.2)
        img += np.exp(-((zz-p[0])**2+(yy-p[1])**2+(xx-p[2])**2)/2/s**2)
    return img
tmpl = make_template()
c = (np.array(tmpl.shape)-1)/2
def make_tomo(shape, pstar, Rstar):
    # tomogram(X) = template(c + Rstar^-1 (X - p*))
    X = np.stack(np.indices(shape),-1).reshape(-1,3).astype(np.float64)
    u = Rstar.inv().apply(X - pstar) + c
    val = ndi.map_coordinates(tmpl, u.T, order=3, mode="constant", cval=0.0)
    return val.reshape(shape).astype(np.float32)

pstar = np.array([30.3, 28.7, 31.1]); 
Rstar = Rotation.from_rotvec([0.4,-0.7,0.2])
tomo = make_tomo((60,60,60), pstar, Rstar)
# search rotations as a Rotation list
qs = [Rotation.identity(), Rotation.from_rotvec([0,0,0.5]), Rotation.from_rotvec([0.6,0,0]), Rotation.from_rotvec([0,-0.7,0.0]), Rotation.from_rotvec([0.3,0.4,0.5])]
rots = Rotation.concatenate(qs)
for k,q in enumerate(qs):
    # true pose = input pose transformed: R* = R_m q ; p* = p + R_m m  (m measured in input molecule frame)
    m = np.array([1.6,-2.2,0.9])
    R_m = Rstar * q.inv()
    p = pstar - R_m.apply(m)
    mol = Molecules(p[None], Rotation.concatenate([R_m]))
    ldr = SubtomogramLoader(tomo, mol, order=3, scale=1.0)
    out = ldr.align(tmpl, max_shifts=3.0, rotations=rots)
    o = out.molecules
    dp = o.pos[0]-pstar
    dR = (o.rotator[0].inv()*Rstar).magnitude()
    alt = p + R_m.apply(q.apply(m))  # what code's formula predicts if shift=m
    print(k, "pos err", np.round(dp,3), "rot err", round(float(dR),4), "feat", o.features.select(["score","align-dz","align-dy","align-dx"]).row(0))
