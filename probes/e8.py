import numpy as np, threading
from acryo.alignment import ZNCCAlignment
from acryo.backend import Backend
rng = np.random.default_rng(0)
tmpl = rng.normal(size=(6,6,6)).astype(np.float32)
model = ZNCCAlignment(tmpl)
cache = model._template_mask_cache

class View:
    def __init__(self, d, hook): self.d=d; self.hook=hook
    def __iter__(self):
        it = iter(dict.values(self.d))
        self.hook()   # schedule point: GIL may switch here (after CALL iter, before CALL next)
        return it
class IDict(dict):
    hook = staticmethod(lambda: None)
    def values(self): return View(self, self.hook)
d = IDict(cache._dict); cache._dict = d
img = rng.normal(size=(6,6,6)).astype(np.float32)
q = np.array([0,0,0,1.0]); p = np.zeros(3)
# thread B: another task inserting its own backend, run at the schedule point of thread A
def other_task():
    IDict.hook = staticmethod(lambda: None)
    model.score(img, q, p)       # fresh Backend() -> inserts a new key
IDict.hook = staticmethod(other_task)
try:
    print(model.score(img, q, p))
except Exception as e:
    print("RAISED", type(e).__name__, e)
print(len(d))
