import numpy as np, dask.array as da
class Box:
    def __init__(s,v): s.v=v
img = da.from_array(np.zeros((56,56,56),np.float32), chunks=(28,20,56))
def f(block, block_info=None):
    bi = block_info[None]; b0 = block_info[0]
    return np.array([[[ Box((bi["array-location"], bi["chunk-location"], block.shape, b0["array-location"])) ]]], dtype=object)
for depth in [(4,4,4),(30,4,4)]:
    t = img.map_overlap(f, depth=list(depth), trim=False, boundary="nearest", dtype=object, meta=np.array([]))
    out = t.compute().ravel()
    print("depth",depth, "n blocks", len(out))
    for o in out[:6]: o=o.v; print("  out-loc",o[0],"chunk",o[1],"block shape",o[2],"in-loc",o[3])
