import numpy as np, warnings
import polars as pl
from scipy.spatial.transform import Rotation
from acryo import SubtomogramLoader, Molecules, BatchLoader
rng = np.random.default_rng(0)
t0 = np.full((20,20,20), 1.0, np.float32); t1 = np.full((20,20,20), 2.0, np.float32)
m0 = Molecules(rng.uniform(8,12,(3,3)), features={"s":[0.1,0.5,0.9]})
m1 = Molecules(rng.uniform(8,12,(3,3)), features={"s":[0.2,0.4,0.8]})
b = BatchLoader(order=1, output_shape=(3,3,3))
b.add_tomogram(t0, m0); b.add_tomogram(t1, m1)
print(b.molecules.features)
b2 = b.replace(molecules=b.molecules.sort("s"))
print(b2.molecules.features["image-id"].to_list())
arr = b2.asnumpy()
print("loaded means:", arr.mean(axis=(1,2,3)), " expected:", (b2.molecules.features["image-id"].to_numpy()+1.0))
df = b2.apply(np.mean)
print(df)
# sample
b3 = b.sample(4, seed=3)
print("sample ids", b3.molecules.features["image-id"].to_list(), b3.asnumpy().mean(axis=(1,2,3)))
# group one-shot
ldr = SubtomogramLoader(rng.normal(size=(30,30,30)).astype(np.float32), Molecules(rng.uniform(10,20,(6,3)), features={"g":[0,0,0,1,1,1],"s":[1,2,3,4,5,6]}), order=1, output_shape=(5,5,5))
g = ldr.groupby("g").filter(pl.col("s")>1)
tmpl = rng.normal(size=(5,5,5)).astype(np.float32)
out = g.align(tmpl, max_shifts=(1,1,1))
print("group filter->align count:", out.count())
g2 = ldr.groupby("g")
print("group align count:", g2.align(tmpl, max_shifts=(1,1,1)).count())
try:
    print("scalar max_shifts:", g2.align(tmpl, max_shifts=1.0).count())
except Exception as e:
    print("scalar max_shifts raised", type(e).__name__, e)
from acryo.alignment import PCCAlignment, FSCAlignment
for M in (PCCAlignment, FSCAlignment):
    try:
        print(M.__name__, "scalar max_shifts:", g2.align(tmpl, max_shifts=1.0, alignment_model=M).count())
    except Exception as e:
        print(M.__name__, "scalar max_shifts raised", type(e).__name__, e)
    try:
        print(M.__name__, "multi scalar:", ldr.align_multi_templates([tmpl, tmpl[::-1]], max_shifts=1.0, alignment_model=M).count())
    except Exception as e:
        print(M.__name__, "multi scalar max_shifts raised", type(e).__name__, e)
