import numpy as np, dask.array as da
from acryo.classification import PcaClassifier
rng = np.random.default_rng(0)
def run(N, shape, k, chunks=None, rank=None):
    if rank:
        basis = rng.normal(size=(rank, np.prod(shape)))
        X = rng.normal(size=(N, rank)) @ basis
        X = X.reshape((N,)+shape).astype(np.float32)
    else:
        X = rng.normal(size=(N,)+shape).astype(np.float32)
    mask = (rng.uniform(size=shape) > 0.3).astype(np.float32)
    stack = da.from_array(X, chunks=chunks or ((N,)+shape))
    clf = PcaClassifier(stack, mask, n_components=k, n_clusters=2, seed=0).run()
    Xm = (X*mask).reshape(N,-1).astype(np.float64); Xc = Xm - Xm.mean(0)
    U,S,Vt = np.linalg.svd(Xc, full_matrices=False)
    sv = clf.pca.singular_values_
    comp = clf.pca.components_
    cos = [abs(np.dot(comp[i], Vt[i]))/np.linalg.norm(comp[i]) for i in range(k)]
    return np.round(sv/S[:k],4), np.round(cos,4)
print("N=8 5^3 k=2 full:", run(8,(5,5,5),2))
print("N=30 8^3 k=2 noise:", run(30,(8,8,8),2))
print("N=30 8^3 k=2 noise again:", run(30,(8,8,8),2))
print("N=30 8^3 k=2 chunks:", run(30,(8,8,8),2, chunks=(7,8,8,8)))
print("N=30 8^3 k=3 rank5:", run(30,(8,8,8),3, rank=5))
print("N=12 8^3 k=2 noise:", run(12,(8,8,8),2))
