import numpy as np, warnings
from scipy.spatial.transform import Rotation
from acryo import SubtomogramLoader, Molecules, BatchLoader
from acryo._utils import make_slice_and_pad
rng = np.random.default_rng(0)
tomo = rng.normal(size=(30,30,30)).astype(np.float32)
# order=1, shape 9: x0 = int(c - 4.5 - 1); want x0 == 30 -> c = 35.5..36.49
for c in [35.6, 36.4, 36.6, -5.4, -5.6, -6.6]:
    mol = Molecules([[c, 15, 15]])
    ldr = SubtomogramLoader(tomo, mol, order=1, output_shape=(9,9,9))
    try:
        with warnings.catch_warnings():
            warnings.simplefilter("ignore")
            out = ldr.load(0)
        print(c, "loaded", out.shape, "nan:", np.isnan(out).sum(), "finite", np.isfinite(out).all())
    except Exception as e:
        print(c, type(e).__name__, str(e)[:100])
