import numpy as np
from scipy import ndimage as ndi
from acryo.alignment import ZNCCAlignment, NCCAlignment, PCCAlignment, FSCAlignment
rng = np.random.default_rng(2)
shape=(12,13,14)
base = ndi.gaussian_filter(rng.normal(size=shape),0.9)
zz,yy,xx=np.indices(shape); c=(np.array(shape)-1)/2
win=np.exp(-(((zz-c[0])/3)**2+((yy-c[1])/3.3)**2+((xx-c[2])/3.6)**2)**2)
t=(base*win).astype(np.float32)
def fshift(img,d):
    f=np.fft.fftn(img)
    for ax,(n,dd) in enumerate(zip(img.shape,d)):
        k=np.fft.fftfreq(n); ph=np.exp(-2j*np.pi*k*dd)
        if n%2==0: ph[n//2]=np.cos(np.pi*dd)
        sh=[1,1,1]; sh[ax]=n; f=f*ph.reshape(sh)
    return np.fft.ifftn(f).real.astype(np.float32)
for d in [(1,-2,0),(0.6,1.4,-1.2),(-2,2,1)]:
    img = fshift(t,d)+0.02*rng.normal(size=shape).astype(np.float32)
    for M in (ZNCCAlignment,NCCAlignment,PCCAlignment,FSCAlignment):
        m=M(t); r=m.align(img,(2,2,2))
        for up in (1,2):
            l=m.landscape(img,(2,2,2),upsample=up)
            am=(np.array(np.unravel_index(np.argmax(l),l.shape))-(np.array(l.shape)-1)/2)/up
            print(d, M.__name__, "align", np.round(r.shift,2), "up",up,"lshape",l.shape,"landscape argmax", am)
