import threading, numpy as np, itertools
from acryo.alignment import ZNCCAlignment
from acryo.backend import Backend

class Coop:
    """One thread runs at a time; at each point() the running thread parks and the driver picks who continues."""
    def __init__(self, choose):
        self.cv = threading.Condition(); self.turn = None; self.parked = {}; self.done=set(); self.choose=choose; self.trace=[]
    def point(self, tag=""):
        me = threading.current_thread().name
        if me not in self.names: return
        with self.cv:
            self.parked[me]=tag; self.turn=None; self.cv.notify_all()
            self.cv.wait_for(lambda: self.turn==me)
            del self.parked[me]
    def run(self, fns):
        self.names = [f"w{i}" for i in range(len(fns))]
        res = {}; 
        def wrap(name, fn):
            def go():
                self.point("start")
                try: res[name]=("ok", fn())
                except BaseException as e: res[name]=("err", e)
                with self.cv: self.done.add(name); self.turn=None; self.cv.notify_all()
            return go
        ths=[threading.Thread(target=wrap(n,f), name=n) for n,f in zip(self.names,fns)]
        for t in ths: t.start()
        while True:
            with self.cv:
                self.cv.wait_for(lambda: self.turn is None and len(self.parked)+len(self.done)==len(ths))
                if len(self.done)==len(ths): break
                cand = sorted(self.parked); pick = cand[self.choose(len(cand))]
                self.trace.append((pick, self.parked[pick])); self.turn=pick; self.cv.notify_all()
        for t in ths: t.join()
        return res

def instrument(model, coop):
    cache = model._template_mask_cache
    class View:
        def __init__(s,d): s.d=d
        def __iter__(s):
            it = iter(dict.values(s.d)); coop.point("values.iter"); return it
    class IDict(dict):
        def get(s,k,d=None): coop.point("get"); return dict.get(s,k,d)
        def __setitem__(s,k,v): coop.point("set"); dict.__setitem__(s,k,v)
        def values(s): return View(s)
    cache._dict = IDict(cache._dict)

rng = np.random.default_rng(0)
tmpl = rng.normal(size=(6,6,6)).astype(np.float32); imgs=[rng.normal(size=(6,6,6)).astype(np.float32) for _ in range(2)]
q=np.array([0,0,0,1.0]); p=np.zeros(3)
ref=[float(ZNCCAlignment(tmpl).score(im,q,p)) for im in imgs]
bad=0; total=0
for sched in itertools.product(range(2), repeat=8):
    it = iter(sched)
    coop = Coop(lambda n: min(next(it,0), n-1))
    model = ZNCCAlignment(tmpl); instrument(model, coop)
    res = coop.run([lambda im=im: float(model.score(im,q,p)) for im in imgs])
    total+=1
    if any(v[0]=="err" for v in res.values()):
        bad+=1
        if bad==1: print("first failing schedule", sched, coop.trace, {k:repr(v[1]) for k,v in res.items()})
print("schedules", total, "failing", bad)
