import numpy as np, sys, threading, collections
import dask
from acryo import SubtomogramLoader, Molecules
from acryo.alignment import ZNCCAlignment
rng = np.random.default_rng(0)
tomo = rng.normal(size=(40,40,40)).astype(np.float32)
mol = Molecules(rng.uniform(12,28,(64,3)))
tmpl = rng.normal(size=(6,6,6)).astype(np.float32)
ldr = SubtomogramLoader(tomo, mol, order=1, output_shape=(6,6,6))
sys.setswitchinterval(1e-6)
errs = collections.Counter()
for trial in range(30):
    try:
        with dask.config.set(scheduler="threads", num_workers=16):
            s = ldr.score([tmpl])
    except Exception as e:
        errs[type(e).__name__+": "+str(e)[:60]] += 1
print("score:", errs)
errs = collections.Counter()
for trial in range(30):
    try:
        with dask.config.set(scheduler="threads", num_workers=16):
            s = ldr.align(tmpl, max_shifts=1.0)
    except Exception as e:
        errs[type(e).__name__+": "+str(e)[:60]] += 1
print("align:", errs)
