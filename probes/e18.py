import numpy as np, warnings
from acryo.alignment import ZNCCAlignment, NCCAlignment, PCCAlignment, FSCAlignment
rng = np.random.default_rng(0)
def blobs(shape, centers, sigmas, amps, d=(0,0,0)):
    zz,yy,xx = np.indices(shape, dtype=np.float64); img = np.zeros(shape)
    for c,s,a in zip(centers,sigmas,amps):
        img += a*np.exp(-((zz-c[0]-d[0])**2+(yy-c[1]-d[1])**2+(xx-c[2]-d[2])**2)/2/s**2)
    return img.astype(np.float32)
res = {}
for trial in range(150):
    shape = tuple(int(v) for v in rng.integers(10,20,3))
    ms = tuple(float(v) for v in rng.choice([1.0,2.0,3.0,1.5,2.5,0.8], 3))
    nb = rng.integers(3,7)
    cen = [ (np.array(shape)-1)/2 + rng.uniform(-1,1,3)*(np.array(shape)/2 - 3.2 - np.array(ms)).clip(0.3) for _ in range(nb)]
    sig = rng.uniform(1.2,2.0,nb); amp = rng.uniform(0.5,1.5,nb)
    kind = trial % 3
    d = np.array([rng.uniform(-m,m) for m in ms])
    if kind==1: d = np.round(d)  # integer
    if kind==2: d = np.array(ms)*rng.choice([-1,1],3)  # at edge
    d = np.clip(d, -np.array(ms), np.array(ms))
    t = blobs(shape, cen, sig, amp); img = blobs(shape, cen, sig, amp, d)
    for M in (ZNCCAlignment, NCCAlignment, PCCAlignment, FSCAlignment):
        if M is FSCAlignment and trial % 5: continue
        try:
            r = M(t).align(img, ms)
            err = np.abs(r.shift - d).max()
            res.setdefault((M.__name__,kind),[]).append((err, float(r.score)))
        except Exception as e:
            res.setdefault((M.__name__,kind),[]).append((99.0, 0))
for k,v in sorted(res.items()):
    e = np.array([x[0] for x in v]); s=np.array([x[1] for x in v])
    print(k, "n",len(e),"max err", e.max().round(3), "p95", np.percentile(e,95).round(3), "n>0.1", int((e>0.1).sum()), "n_exc", int((e==99).sum()), "min score", s.min().round(3))
