import numpy as np, warnings
from scipy import ndimage as ndi
from scipy.spatial.transform import Rotation
from acryo.alignment import ZNCCAlignment, PCCAlignment
from acryo._utils import compose_matrices
rng = np.random.default_rng(1)
def blob(n=20, seed=0):
    r = np.random.default_rng(seed)
    img = np.zeros((n,n,n), np.float32); zz,yy,xx=np.indices(img.shape); c=(n-1)/2
    for _ in range(5):
        p = c + r.uniform(-3.5,3.5,3); s=r.uniform(1.2,2)
        img += np.exp(-((zz-p[0])**2+(yy-p[1])**2+(xx-p[2])**2)/2/s**2)
    return img
T = [blob(seed=s) for s in range(3)]
qs = [Rotation.identity(), Rotation.from_rotvec([0,0,0.6]), Rotation.from_rotvec([0.7,0,0]), Rotation.from_rotvec([0,-0.8,0.0])]
rots = Rotation.concatenate(qs)
model = ZNCCAlignment(T, rotations=rots)
print("niter", model.niter)
c = (np.array(T[0].shape)-1)/2
for j in range(3):
    for k in range(4):
        # img = template j rotated by q_k then shifted by d
        d = np.array([1.0,-2.0,1.5])
        M = compose_matrices(c, [qs[k].inv()])[0].astype(np.float64)
        rot = ndi.affine_transform(T[j], M, order=3)
        img = ndi.shift(rot, d, order=3)
        r = model.align(img, (3,3,3))
        kq = int(np.argmin([ (Rotation.from_quat(r.quat).inv()*q).magnitude() for q in qs]))
        print(f"j={j} k={k} -> label={r.label} (tmpl {r.label % 3}, rot idx by label//3={r.label//3}) reported rot idx={kq} shift={np.round(r.shift,2)} score={r.score:.3f}")
# legacy tilt kw
with warnings.catch_warnings():
    warnings.simplefilter("ignore")
    m1 = ZNCCAlignment(T[0], tilt_range=(-60,60))
m2 = ZNCCAlignment(T[0], tilt=(-60,60))
q = np.array([0,0,0,1.0])
print("legacy mask kept fraction", np.mean(m1.get_missing_wedge_mask(q)), "tuple:", np.mean(m2.get_missing_wedge_mask(q)))
