import numpy as np
from scipy import ndimage as ndi
from acryo.alignment import FSCAlignment, ZNCCAlignment, PCCAlignment
rng = np.random.default_rng(3)
def fshift(img, d):
    f = np.fft.fftn(img)
    for ax,(n,dd) in enumerate(zip(img.shape,d)):
        k = np.fft.fftfreq(n)
        if n%2==0: k = k.copy(); # nyquist handled as cos
        ph = np.exp(-2j*np.pi*k*dd)
        if n%2==0: ph[n//2] = np.cos(np.pi*dd)
        sh=[1,1,1]; sh[ax]=n; f = f*ph.reshape(sh)
    return np.fft.ifftn(f).real.astype(np.float32)
errs={ "FSC":[], "ZNCC":[], "PCC":[]}
for trial in range(40):
    shape = tuple(int(v) for v in rng.integers(10,17,3))
    base = ndi.gaussian_filter(rng.normal(size=shape), 0.8)
    zz,yy,xx = np.indices(shape); c=(np.array(shape)-1)/2
    r2 = ((zz-c[0])/(shape[0]/2-3.5))**2+((yy-c[1])/(shape[1]/2-3.5))**2+((xx-c[2])/(shape[2]/2-3.5))**2
    win = np.exp(-r2**2*1.0)  # soft window
    t = (base*win).astype(np.float32)
    ms=(2.0,2.0,2.0)
    d = rng.uniform(-2,2,3) if trial%2 else np.round(rng.uniform(-2,2,3))
    img = fshift(t, d)
    for nm,M in (("FSC",FSCAlignment),("ZNCC",ZNCCAlignment),("PCC",PCCAlignment)):
        r = M(t).align(img, ms); errs[nm].append((np.abs(r.shift-d).max(), trial%2, float(r.score)))
for k,v in errs.items():
    a=np.array(v); print(k, "int d: max err", a[a[:,1]==0,0].max().round(3), " frac d: max err", a[a[:,1]==1,0].max().round(3), "p90", np.percentile(a[a[:,1]==1,0],90).round(3), "min score", a[:,2].min().round(3))
