import numpy as np, dask.array as da
from scipy import ndimage as ndi
from scipy.spatial.transform import Rotation
from acryo import SubtomogramLoader, Molecules, BatchLoader, _utils
from acryo.alignment import ZNCCAlignment, NCCAlignment, PCCAlignment, FSCAlignment
rng = np.random.default_rng(0)
# C07
for shape in [(8,8,8),(7,9,8),(9,9,9)]:
    t = ndi.gaussian_filter(rng.normal(size=shape),1).astype(np.float32); img = (t + 0.5*ndi.gaussian_filter(rng.normal(size=shape),1)).astype(np.float32)
    mask = (rng.uniform(size=shape)>0.3).astype(np.float32)
    q = Rotation.random(random_state=1).as_quat(); p=np.zeros(3)
    for mk in (None, mask):
        for cutoff in (None, 0.3):
            for tilt in (None, (-50,60)):
                m = ZNCCAlignment(t, mk, cutoff=cutoff, tilt=tilt)
                s = float(m.score(img, q, p))
                # reference
                mm = 1 if mk is None else mk
                def prep(x):
                    f = np.fft.fftn(x*mm)
                    if cutoff:
                        fz,fy,fx = np.meshgrid(*[np.fft.fftfreq(n) for n in shape], indexing="ij"); f = f/(1+((fz**2+fy**2+fx**2)/cutoff**2)**2)
                    f = f*m.get_missing_wedge_mask(q)
                    return np.fft.ifftn(f).real
                a,b = prep(img), prep(t)
                ref = np.corrcoef(a.ravel(), b.ravel())[0,1]
                al = m.align(img, (0,0,0)); ls = m.landscape(img, (1,1,1))
                s2 = float(m.score(3.7*img, q, p)); s3 = float(m.score(img+5.0, q, p))
                print(shape, mk is not None, cutoff, tilt, "score", round(s,5), "ref", round(ref,5), "align0", round(float(al.score),5), "lsc", round(float(ls[1,1,1]),5), "gain", round(s2,5), "offset", round(s3,5))
