import numpy as np
from scipy import ndimage as ndi
from acryo import pipe
rng = np.random.default_rng(0)
img = ndi.gaussian_filter(rng.normal(size=(12,13,14)),1.2).astype(np.float32)
mask = np.zeros((14,14,14),bool); mask[5:9,4:10,5:8]=True; mask[7,7,9]=True
lam=1.7
for name, mk in [("gaussian_filter", lambda l: pipe.gaussian_filter(sigma=1.3*l)), ("shift", lambda l: pipe.shift((0.7*l,-1.1*l,0.2*l))),
                 ("dilation", lambda l: pipe.dilation(2.3*l)), ("erosion", lambda l: pipe.dilation(-1.2*l)), ("closing", lambda l: pipe.closing(1.6*l)), ("opening", lambda l: pipe.closing(-1.6*l)),
                 ("gsmooth", lambda l: pipe.gaussian_smooth(1.1*l)), ("soft_otsu", lambda l: pipe.soft_otsu(1.0*l, 1.5*l))]:
    x = mask if name in ("dilation","erosion","closing","opening","gsmooth") else img
    a = mk(1.0)(x, 0.8); b = mk(lam)(x, 0.8*lam)
    print(name, "covariant:", np.allclose(a,b,atol=1e-5), a.dtype, float(np.min(a)), float(np.max(a)))
d = pipe.dilation(2.0)(mask,1.0); e = pipe.dilation(-1.0)(mask,1.0); c = pipe.closing(2.0)(mask,1.0); o = pipe.closing(-1.0)(mask,1.0)
print("dil ext", (d>=mask).all(), "ero anti", (e<=mask).all(), "clo ext", (c>=mask).all(), "open anti", (o<=mask).all())
g = pipe.gaussian_smooth(1.5)(mask,1.0); print("gs in[0,1]", g.min()>=0, g.max()<=1, "==1 on mask", (g[mask]==1).all())
full = np.ones((8,8,8),bool); print("closing(all True) extensive?", (pipe.closing(2.0)(full,1.0)>=full).all())
# from_array rescale
blob = np.exp(-((np.indices((20,20,20))-np.array([9.5,8.0,11.0])[:,None,None,None])**2).sum(0)/2/2.0**2).astype(np.float32)
for sc in [0.5, 0.77, 1.0, 1.005, 2.0]:
    out = pipe.from_array(blob, original_scale=1.0)(sc)
    com = np.array(ndi.center_of_mass(out)); 
    print("scale",sc,"shape",out.shape,"same obj", out is blob, "COM phys (px*scale)", np.round(com*sc,3), "COM rel centre phys", np.round((com-(np.array(out.shape)-1)/2)*sc,3))
print("orig COM rel centre", np.round(np.array(ndi.center_of_mass(blob))-9.5,3))
# currying
@pipe.provider_function
def p0(): return np.ones((2,2,2))
@pipe.provider_function
def p1(scale): return np.full((2,2,2), scale)
@pipe.converter_function
def c0(): return np.zeros((2,2,2))
@pipe.converter_function
def c1(img): return img*2
@pipe.converter_function
def c2(img, scale, k=3): return img*scale*k
print(p0()(0.5).mean(), p1()(0.5).mean(), c0()(np.ones((2,2,2)),1.0).mean(), c1()(np.ones((2,2,2)),1.0).mean(), c2(k=5)(np.ones((2,2,2)),0.5).mean())
