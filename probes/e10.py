import numpy as np
from acryo import _utils, pipe
from acryo.backend import Backend
rng = np.random.default_rng(0)
for shape in [(6,6,6),(6,6,7),(7,7,7),(5,6,8),(1,4,5)]:
    img = rng.normal(size=shape).astype(np.float32)
    for name, f in [("utils", lambda im: _utils.lowpass_filter(im, 0.2)), ("backend", lambda im: Backend().lowpass_filter(im, 0.2)), ("pipe", lambda im: pipe.lowpass_filter(0.2)(im, 1.0))]:
        try:
            out = f(img)
            # reference
            fz,fy,fx = np.meshgrid(*[np.fft.fftfreq(n) for n in shape], indexing="ij")
            w = 1/(1+((fz**2+fy**2+fx**2)/0.2**2)**2)
            ref = np.fft.ifftn(np.fft.fftn(img)*w).real
            ok = out.shape==shape and np.allclose(out, ref, atol=1e-4)
            print(shape, name, out.shape, "match ref:", ok)
        except Exception as e:
            print(shape, name, "RAISED", type(e).__name__, str(e)[:80])
    ft = _utils.lowpass_filter_ft(img, 0.2); ftb = Backend().lowpass_filter_ft(img, 0.2)
    print("   ft variants agree:", np.allclose(ft, ftb, atol=1e-4), " ft==fft(ref):", np.allclose(ft, np.fft.fftn(ref), atol=1e-3))
