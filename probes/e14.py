import numpy as np
from acryo import SubtomogramLoader, Molecules
from acryo.alignment import ZNCCAlignment, PCCAlignment, FSCAlignment, NCCAlignment
rng = np.random.default_rng(0)
tomo = rng.normal(size=(40,40,40)).astype(np.float32)
mol = Molecules(rng.uniform(15,25,(3,3)))
tmpl = rng.normal(size=(8,8,8)).astype(np.float32)
ldr = SubtomogramLoader(tomo, mol, order=1)
for M in (ZNCCAlignment, NCCAlignment, PCCAlignment, FSCAlignment):
    for ms in [2.0, 1.5, (1.2, 2.0, 0.4)]:
        for up in [1,2,3]:
            try:
                lz = ldr.construct_landscape(tmpl, max_shifts=ms, alignment_model=M, upsample=up)
                try:
                    got = lz.compute().shape
                except Exception as e:
                    got = "compute RAISED "+type(e).__name__+": "+str(e)[:70]
                print(M.__name__, ms, up, "declared", lz.shape, "actual", got)
            except Exception as e:
                print(M.__name__, ms, up, "RAISED", type(e).__name__, str(e)[:80])
