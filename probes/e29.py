import numpy as np
from scipy import ndimage as ndi
from acryo import pipe
rng = np.random.default_rng(0)
img = ndi.gaussian_filter(rng.normal(size=(12,13,14)),1.2).astype(np.float32)
for lam in [1.7, 2.0, 0.5, 3.3]:
    a = pipe.gaussian_filter(sigma=1.3)(img, 0.8); b = pipe.gaussian_filter(sigma=1.3*lam)(img, 0.8*lam)
    print(lam, np.abs(a-b).max(), 1.3/0.8, (1.3*lam)/(0.8*lam))
