import numpy as np
from acryo.alignment import FSCAlignment, ZNCCAlignment
def blobs(shape, centers, sigmas, amps, d=(0,0,0)):
    zz,yy,xx = np.indices(shape, dtype=np.float64); img = np.zeros(shape)
    for c,s,a in zip(centers,sigmas,amps):
        img += a*np.exp(-((zz-c[0]-d[0])**2+(yy-c[1]-d[1])**2+(xx-c[2]-d[2])**2)/2/s**2)
    return img.astype(np.float32)
rng = np.random.default_rng(3)
shape=(14,14,14); cen=[(6.5+rng.uniform(-2,2,3)) for _ in range(4)]; sig=[1.5]*4; amp=[1,0.8,1.2,0.6]
t = blobs(shape,cen,sig,amp)
for d in [(1,0,0),(0,-2,1),(2,2,-2),(0.5,0,0),(1.3,-0.7,0.2)]:
    img = blobs(shape,cen,sig,amp,d)
    m = FSCAlignment(t)
    r = m.align(img,(2,2,2))
    l = m.landscape(img,(2,2,2))
    print(d, "->", np.round(r.shift,2), round(float(r.score),3), "landscape argmax", np.array(np.unravel_index(np.argmax(l), l.shape))-2, "max", l.max().round(3), "nan", np.isnan(l).sum())
