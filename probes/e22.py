import numpy as np, dask, random
from concurrent.futures import Future
from dask.local import get_async
from acryo import SubtomogramLoader, Molecules

class DeferredExecutor:
    """submit() only queues; run_one(i) executes the i-th pending task. The order is owned by the harness."""
    def __init__(self): self.pending=[]
    def submit(self, fn, *a, **k):
        f = Future(); self.pending.append((f, fn, a, k)); return f
def make_get(choose, width=4, log=None):
    def get(dsk, keys, **kwargs):
        ex = DeferredExecutor()
        # get_async blocks on a queue waiting for results; so we run it with a submit that executes lazily:
        # trick: wrap submit so that when `width` tasks are pending (or no more will come) we run one chosen task.
        def submit(fn, *a, **k):
            f = ex.submit(fn, *a, **k)
            return f
        # simple approach: monkeypatch queue get: not available -> use threads? Instead emulate: run chosen pending task whenever get_async waits.
        import queue
        class Q(queue.Queue):
            def get(self_q, *a, **k):
                while self_q.empty():
                    if not ex.pending: break
                    i = choose(len(ex.pending))
                    f, fn, aa, kk = ex.pending.pop(i)
                    if log is not None: log.append(i)
                    try: f.set_result(fn(*aa, **kk))
                    except BaseException as e: f.set_exception(e)
                return super().get(*a, **k)
        import dask.local as dl
        oldQ = dl.Queue; dl.Queue = Q
        try:
            return get_async(submit, width, dsk, keys, **kwargs)
        finally:
            dl.Queue = oldQ
    return get
rng = np.random.default_rng(0)
tomo = rng.normal(size=(40,40,40)).astype(np.float32)
mol = Molecules(rng.uniform(12,28,(9,3)))
ldr = SubtomogramLoader(tomo, mol, order=1, output_shape=(5,5,5))
ref = ldr.asnumpy()
r = random.Random(1); log=[]
with dask.config.set(scheduler=make_get(lambda n: r.randrange(n), width=5, log=log)):
    out = ldr.asnumpy()
print("equal", np.array_equal(ref,out), "choices", log[:20], len(log))
