import numpy as np
from acryo.alignment import ZNCCAlignment, NCCAlignment
rng = np.random.default_rng(5)
def blobs(shape, centers, sigmas, amps, d=(0,0,0)):
    zz,yy,xx = np.indices(shape, dtype=np.float64); img = np.zeros(shape)
    for c,s,a in zip(centers,sigmas,amps):
        img += a*np.exp(-((zz-c[0]-d[0])**2+(yy-c[1]-d[1])**2+(xx-c[2]-d[2])**2)/2/s**2)
    return img.astype(np.float32)
for smin,smax in [(1.0,1.3),(1.5,2.0),(2.0,3.0)]:
    errs=[]
    for trial in range(120):
        ms = tuple(float(v) for v in rng.choice([1.0,2.0,3.0,1.5,2.5,0.8], 3))
        nb = rng.integers(2,6); sig = rng.uniform(smin,smax,nb); amp = rng.uniform(0.5,1.5,nb)
        half = 3.5*smax + max(ms) + 3
        shape = tuple(int(2*half + rng.integers(0,3)) for _ in range(3))
        cen = [ (np.array(shape)-1)/2 + rng.uniform(-3,3,3) for _ in range(nb)]
        d = np.array([rng.uniform(-m,m) for m in ms])
        t = blobs(shape, cen, sig, amp); img = blobs(shape, cen, sig, amp, d)
        r = ZNCCAlignment(t).align(img, ms)
        errs.append(np.abs(r.shift-d).max())
    e=np.array(errs); print("sigma",smin,smax,"shape~",shape,"max",e.max().round(3),"p99",np.percentile(e,99).round(3),"p50",np.median(e).round(3))
