import numpy as np, polars as pl, tempfile, os
from scipy.spatial.transform import Rotation
from acryo import Molecules
rv = np.array([[0,0,0],[1e-9,0,0],[np.pi-1e-7,0,0],[0,np.pi,0],[2.2,-2.2,0.1],[1e-4,2e-4,-3e-4]])
m = Molecules(np.array([[1e4+0.123456,-3.5,0.000049]]*6)+np.arange(6)[:,None], Rotation.from_rotvec(rv),
  features={"i":[1,2,None,4,5,6],"f":[0.5,np.nan,None,1e-7,1e9,-3.25],"s":["a","b,c",None,'q"x',"é","  pad "],"b":[True,False,None,True,True,False]})
with tempfile.TemporaryDirectory() as d:
    for suf,kw in [(".parquet",{}),(".csv",{})]:
        p=os.path.join(d,"m"+suf); m.to_file(p); r=Molecules.from_file(p)
        print(suf,"pos err",np.abs(r.pos-m.pos).max(),"rot err",(r.rotator.inv()*m.rotator).magnitude().max())
        print(r.features, r.features.equals(m.features))
    for prec in [None,0,2,8]:
        p=os.path.join(d,f"p{prec}.csv"); m.to_csv(p, float_precision=prec); r=Molecules.from_csv(p)
        print("prec",prec,"pos err",np.abs(r.pos.astype(float)-m.pos).max(),"rot err",(r.rotator.inv()*m.rotator).magnitude().max(), r.features["f"].to_list())
    # single row
    m1 = m.subset(0); p=os.path.join(d,"one.csv"); m1.to_csv(p); print("1 row", len(Molecules.from_csv(p)))
    df=m.to_dataframe(); r=Molecules.from_dataframe(df); print("df rt", np.abs(r.pos-m.pos).max(), (r.rotator.inv()*m.rotator).magnitude().max(), r.features.equals(m.features))
