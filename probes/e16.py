import numpy as np, dask.array as da, polars as pl
from scipy import ndimage as ndi
from scipy.spatial.transform import Rotation
from acryo import SubtomogramLoader, Molecules, BatchLoader, _utils
rng = np.random.default_rng(0)
# C17
def ref_fsc(a,b,dfreq):
    shape=a.shape
    fr = np.meshgrid(*[np.fft.fftfreq(n) for n in shape], indexing="ij"); r = np.sqrt(sum(f**2 for f in fr))
    lab = (r/dfreq).astype(int); F1=np.fft.fftn(a); F2=np.fft.fftn(b)
    n = lab.max()
    out=[]
    for i in range(n):
        m = lab==i
        out.append((F1[m]*np.conj(F2[m])).real.sum()/np.sqrt((abs(F1[m])**2).sum()*(abs(F2[m])**2).sum()))
    return np.array(out)
for shape in [(8,8,8),(7,9,10),(5,5,5)]:
    a = rng.normal(size=shape).astype(np.float32); b=(a+rng.normal(size=shape)).astype(np.float32)
    for dfreq in [0.05, 0.125, 0.2, 1/min(shape)]:
        f, v = _utils.fourier_shell_correlation(a,b,dfreq)
        r = ref_fsc(a,b,dfreq)
        fs, vs = _utils.fourier_shell_correlation(a,a,dfreq)
        print(shape, dfreq, "len", len(v), len(r), "maxdiff", np.nanmax(np.abs(v-r)) if len(v)==len(r) else "LEN", "self min", np.nanmin(vs), "nan count", np.isnan(v).sum(), "sym", np.allclose(v, _utils.fourier_shell_correlation(b,a,dfreq)[1], equal_nan=True))
# C09 & C15
tomo = rng.normal(size=(48,48,48)).astype(np.float32)
mol = Molecules(rng.uniform(16,32,(7,3)), Rotation.random(7, random_state=0))
ldr = SubtomogramLoader(tomo, mol, order=1, output_shape=(6,7,8))
arr = ldr.asnumpy()
print("avg==mean", np.abs(ldr.average()-arr.mean(0)).max())
ld2 = SubtomogramLoader(da.from_array(tomo, chunks=(13,17,48)), mol, order=1, output_shape=(6,7,8))
print("chunked avg", np.abs(ld2.average()-arr.mean(0)).max(), "asnumpy eq", np.abs(ld2.asnumpy()-arr).max())
sp = ldr.average_split(n_set=3, seed=5)
print("split shape", sp.shape, "repro", np.array_equal(sp, ldr.average_split(n_set=3, seed=5)))
# binning
for b in (2,3):
    n=4
    pos_b = np.array([[5,6,7],[8,4,6]])  # binned grid coords (integer for odd..): box n even -> half-integer centre
    for n in (3,4):
        c = pos_b + ((n-1)/2 % 1)
        # physical pos: binned coordinate j <-> p' = j*s*b ; p = p' + (b-1)/2*s
        s=1.0
        p = c*s*b + (b-1)/2*s
        l0 = SubtomogramLoader(tomo, Molecules(p), order=1, scale=s, output_shape=(n*b,)*3)
        lb = l0.binning(b)
        sub_b = lb.load(0, output_shape=(n,)*3); sub_0 = l0.load(0)
        blk = sub_0.reshape(n,b,n,b,n,b).sum(axis=(1,3,5))
        print("bin",b,"n",n,"scale",lb.scale,"maxdiff", np.abs(sub_b-blk).max())
