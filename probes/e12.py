import numpy as np, dask.array as da
from acryo import pipe
from acryo.pick import LoGPicker, DoGPicker, ZNCCTemplateMatcher
p = pipe.from_array(np.full((4,4,4), 3.0, np.float32))
print("2 - p:", (2 - p)(1.0).ravel()[0], " expected -1;  6 / p:", (6 / p)(1.0).ravel()[0], "expected 2")
c = pipe.gaussian_filter(sigma=1.0)
x = np.full((4,4,4), 3.0, np.float32)
print("2 - conv:", (2 - c)(x, 1.0).ravel()[0], "expected -1")
g = pipe.from_gaussian((9,9,9), sigma=1.5)(1.0)
print("gaussian argmax", np.unravel_index(np.argmax(g), g.shape), "shape", g.shape, "max", g.max(), "expected centre (4,4,4)")
# picking
def planted(shape, centers, sigma=2.0):
    zz,yy,xx = np.indices(shape, dtype=np.float32); img = np.zeros(shape, np.float32)
    for c in centers: img += np.exp(-((zz-c[0])**2+(yy-c[1])**2+(xx-c[2])**2)/2/sigma**2)
    return img
centers = [(10,12,14),(10,40,44),(40,14,40),(42,44,12),(26,28,30)]
img = planted((56,56,56), centers)
for name, picker in [("LoG", LoGPicker(sigma=2.0)), ("DoG", DoGPicker(2.0, 3.2))]:
    m = picker.pick_molecules(img, scale=1.0)
    m = m.filter(__import__("polars").col("score") > 0.2*m.features["score"].max())
    print(name, "numpy:", len(m), np.round(m.pos[np.lexsort(m.pos.T[::-1])],1).tolist())
    for ch in [(28,28,28),(56,20,56)]:
        md = picker.pick_molecules(da.from_array(img, chunks=ch), scale=1.0)
        md = md.filter(__import__("polars").col("score") > 0.2*md.features["score"].max())
        print(name, "dask", ch, len(md), np.round(md.pos[np.lexsort(md.pos.T[::-1])],1).tolist())
