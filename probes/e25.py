import numpy as np, dask.array as da
from acryo.classification._dask_pca import DaskPCA
rng = np.random.default_rng(0)
N,shape,k = 30,(8,8,8),2
X = rng.normal(size=(N,)+shape).astype(np.float32)
Xm = X.reshape(N,-1).astype(np.float64); Xc = Xm-Xm.mean(0); U,S,Vt = np.linalg.svd(Xc, full_matrices=False)
for chunks in [(N,8,8,8),(7,8,8,8),(7,4,8,3),(1,8,8,8)]:
    st = da.from_array(X, chunks=chunks).reshape(N,-1)
    for rechunk in (False, True):
        try:
            flat = st.rechunk({1:-1}) if rechunk else st
            p = DaskPCA(n_components=k, svd_solver="full"); p.fit(flat)
            cos=[abs(p.components_[i]@Vt[i]) for i in range(k)]
            print(chunks, "rechunk",rechunk, "sv ratio", np.round(p.singular_values_/S[:k],5), "cos", np.round(cos,5), flat.numblocks)
        except Exception as e:
            print(chunks, "rechunk",rechunk, "RAISED", type(e).__name__, str(e)[:90])
