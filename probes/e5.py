import numpy as np, warnings
from scipy import ndimage as ndi
from scipy.spatial.transform import Rotation
from acryo.alignment import ZNCCAlignment, PCCAlignment, NCCAlignment, FSCAlignment
rng = np.random.default_rng(1)
tmpl = ndi.gaussian_filter(rng.normal(size=(12,13,14)),1.0).astype(np.float32)
worst = {}
for M in (ZNCCAlignment, NCCAlignment, PCCAlignment, FSCAlignment):
    model = M(tmpl)
    w = 0; bad=None; nerr=0
    for trial in range(60):
        img = ndi.gaussian_filter(rng.normal(size=tmpl.shape),1.0).astype(np.float32)
        ms = tuple(rng.choice([0, 0.33, 0.62, 0.49, 1.27, 2.513, 3.99, 0.01, 7.3, 30.0], 3))
        try:
            r = model.align(img, ms)
        except Exception as e:
            nerr+=1; bad=(ms, type(e).__name__, str(e)[:80]); continue
        ex = np.max(np.abs(r.shift) - np.array(ms))
        if ex > w: w = ex; bad=(ms, r.shift)
        if not np.all(np.isfinite(r.shift)) or not np.isfinite(r.score): print("nonfinite", M.__name__, ms, r)
    print(M.__name__, "worst excess", w, "errors", nerr, bad)
