import numpy as np, warnings
from acryo.alignment import ZNCCAlignment, NCCAlignment, PCCAlignment, FSCAlignment
rng = np.random.default_rng(0)
t = rng.normal(size=(8,9,10)).astype(np.float32)
cases = {"zeros":np.zeros_like(t), "const":np.full_like(t,3.0), "huge":t*1e6, "tiny":t*1e-6, "noise":rng.normal(size=t.shape).astype(np.float32)}
for M in (ZNCCAlignment, NCCAlignment, PCCAlignment, FSCAlignment):
    for name,img in cases.items():
        for ms in [(1,1,1),(0,0,0),(2.0,1.0,3.0)]:
            with warnings.catch_warnings(record=True) as w:
                warnings.simplefilter("always")
                try:
                    r = M(t).align(img, ms)
                    ok = np.all(np.isfinite(r.shift)) and np.isfinite(r.score)
                    if not ok: print(M.__name__, name, ms, "NONFINITE", r.shift, r.score)
                except Exception as e:
                    print(M.__name__, name, ms, "RAISED", type(e).__name__, str(e)[:70])
    # constant template
    try:
        r = M(np.ones_like(t)).align(cases["noise"], (1,1,1)); print(M.__name__, "const template", r.shift, r.score)
    except Exception as e: print(M.__name__, "const template RAISED", type(e).__name__, str(e)[:70])
print("done")
